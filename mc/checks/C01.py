# -*- coding: utf-8 -*-
"""
C01 -- the parser accepts exactly the grammar and fails only with syntax errors.

Engine E3, two exhaustive layers plus one named probe (DESIGN.md section 6, C01):

(L) character layer.  Every string over an explicitly justified character alphabet (DESIGN 4.1)
    up to a length bound, placed in five *frames* -- plain, ``{a(x:#)}`` (argument value
    position), ``"#"`` (string body), ``"\\u#"`` (unicode escape body), ``\"\"\"#\"\"\"`` (block string
    body) -- is fed to ``Lexer`` directly and to ``parse`` / ``parse_value`` / ``parse_type`` and
    compared with the reference lexer (mc/ref/lexer.py) + reference grammar (mc/ref/grammar.py).

(P) token layer.  Depth-first search over token-sequence *prefixes* over the token alphabet of
    DESIGN 4.1.  A prefix is extended iff it is viable for the reference grammar's Earley chart
    OR the implementation is still asking for more input (its error sits at end of input).  At
    every explored prefix *all* one-token extensions are tried as complete inputs; for further
    extension, sibling tokens that reach the same Earley column *and* leave the implementation in
    the same control state (exception class, error token, the full parse_* call stack with line
    numbers) are represented by the simplest one.  The last token is never merged.

(K) const-ness.  For every production that takes Value[Const] / Directives[Const] (42 places: default values
    of variable, argument and input-field definitions; directives on every type-system definition and
    extension kind and on variable definitions) and for 12 non-Const places of executable definitions, the
    minimal instance with a hole filled by 3 constants and 9 placements of a variable (top level, in a list,
    in an object, nested twice), all 4 flag combinations, full cross product of variants.
(S) contexts seeded from those minimal instances: every proper prefix (731) is a start prefix of the
    search of (P), explored to a relative depth of 2 (quick) / 3 (thorough) -- every token of the alphabet is
    tried at every position of every production, however deep.

(probe) nesting depth 5000 for five nested shapes, outcome recorded.

Oracle (property text + oracle decisions (i)-(iv) of DESIGN 4.2): accept <=> reference accepts, for
all 8 flag combinations and for str and UTF-8 bytes; every rejection is a GraphQLSyntaxError whose
position lies inside the text (in characters) and whose str() / .highlighted / .to_dict() work and
are JSON-serialisable.  Token *values* of strings are C02's business and are only counted here.
"""
import itertools
import json
import sys
import unicodedata

from mc.ref import grammar as RG
from mc.ref import lexer as RL

READY = True
LEVEL = "exploration"
TECHNIQUE = (
    "bounded-exhaustive enumeration of character strings (5 lexical frames) and of token-sequence prefixes "
    "(viable for an Earley chart of the June-2018 grammar or for the implementation) against a reference lexer + grammar"
)
LEVEL_TEXT = (
    "Every string over the stated character alphabets up to the stated lengths and every token sequence reachable "
    "by the stated prefix search up to the stated depth is run through the real Lexer / parse / parse_value / "
    "parse_type under the flag x encoding x layout variants and compared with an independent reference lexer and a "
    "generic Earley recogniser over the grammar typed in as data. Exhaustive inside the bounds (no sampling); "
    "small-scope argument beyond them."
)
LEVEL_NOTE = (
    "Trusted base: mc/ref/lexer.py and mc/ref/grammar.py (self-tested at start-up on spec examples, counter-examples "
    "and the repository's own .graphql fixtures); the merging rule of the prefix search assumes that equal parser "
    "call stacks (function, line) + equal Earley columns have equal futures."
)
DESIGN_REF = "DESIGN.md section 6, C01"
RULE = (
    "L: one evaluation = one call of Lexer/parse/parse_value/parse_type on frame.pre + s + frame.post for every s in "
    "alphabet^n (all n up to the bound), under 16 (flags x str/bytes) configurations ('all') or 2 diagonal ones ('diag'); "
    "P: one evaluation = one parse call on a token sequence prefix+[t] for every token t at every explored prefix, under "
    "4 diagonal (no_location x str/bytes x layout) variants, full 16-64 variant cross product for short inputs; "
    "K: every (Const or non-Const place of the grammar, filler with/without a variable, flag combination) under the full cross product; "
    "S: the prefix search of P started from every proper prefix of K's minimal instances, to a small relative depth; "
    "distinct_nontrivial counts distinct (entry point, grammar flags, text) accepted by the reference grammar (both sides "
    "ran to the end of input); inputs rejected after the first token are counted in counter nontrivial_rejects (distinct by "
    "construction: the enumeration never repeats an input)"
)
ASSUMPTIONS = [
    "oracle decisions (i)-(iv) of DESIGN 4.2: astral code points and (str only) lone surrogates are SourceCharacters; only June-2018 Appendix B plus the documented extensions is accepted; error positions only have to lie inside the text; allow_type_system=False rejects every type-system definition",
    "(v) the optional {...} blocks of type definitions/extensions are read greedily ([lookahead != {], as every implementation does and later spec editions spell out)",
    "bytes inputs are the UTF-8 encodings of the enumerated strings (strings with a lone surrogate are exercised as str only); arbitrary non-UTF-8 bytes are outside the property's quantifier",
    "a Lexer-level token stream difference that changes no parse verdict (e.g. '1.0...' lexed as Float, Ellipsis) is counted, not reported: the property speaks about parse/parse_value/parse_type",
    "decoded String / BlockString token values are compared for information only (counter info:string-value-differs); they belong to C02",
]

# ------------------------------------------------------------------------------------------
# alphabets (DESIGN 4.1)

A_FULL = (
    list("aeEz_Fgbfnrtux")  # NameStart, exponent marker, hex / non-hex letters, escape letters, int(..., 16) prefix
    + list("019")  # leading-zero rule: 0 vs non-0
    + list("{}()[]:$@!=|&.")  # SYMBOLS, _read_ellipsis
    + ['"', "\\", "/"]  # _read_string, QUOTED_CHARS
    + list("#-+")  # comment scanner, _read_number
    + [" ", ",", "\n", "\t", "\r", "\ufeff"]  # IGNORED_CHARS
    + ["\x00", "\x1f", "\x7f"]  # char >= " " tests
    + [
        "\u0663",  # ARABIC-INDIC DIGIT THREE: Nd, str.isdigit
        "\u00b2",  # SUPERSCRIPT TWO: isdigit but not decimal
        "\u2167",  # ROMAN NUMERAL EIGHT: isalnum, numeric (Nl)
        "\u00e9",  # e acute: isalnum letter
        "\u00a0",  # NBSP: str.lstrip / isspace
        "\u0085",  # NEL: str.splitlines
        "\u2028",  # LINE SEPARATOR: str.splitlines
        "\x0b",  # VT: str.splitlines, control
        "\x0c",  # FF: str.splitlines, control
        "\U0001F600",  # astral
        "\ud800",  # lone surrogate (str only)
        "\u017f",  # LATIN SMALL LETTER LONG S: case-folds to ASCII 's' (re.IGNORECASE, str.casefold/upper)
        "\u212a",  # KELVIN SIGN: case-folds to ASCII 'k'
    ]
)
A_MID = list("aeE_01.-+") + ['"', "\\", "u", "n", "#", " ", "\n", ",", "{", "(", ":", "$", "!", "\u0663", "\u00b2", "\u00e9", "\x00"]
A_CORE = list("ae01.-+") + ['"', "\\", "u", "#", " ", "\n", "{", "\u0663", "E"]
A_Q4 = list("ae_01.-+") + ['"', "\\", "u", "n", "#", " ", "\n", "{", "$", "\u0663", "\u00e9", "\x00"]
A_TINY = ['"', "\\", "0", "1", "e", ".", "-", "a"]
# body of a \\u escape: hex / non-hex letters and digits, what int(s, 16) tolerates (0x prefix, sign, underscore,
# surrounding white space), the str.isalnum classes, terminators
A_HEX = list("019aFgxX_+- ") + ["\n", "\t", '"', "\\", "\u0663", "\u00b2", "\u2167", "\u00e9"]
A_HEXQ = list("01aFgx_+ ") + ["\n", '"', "\\", "\u0663", "\u00e9"]
A_MICRO = ['"', "\\", "a", "\n"]  # quote runs: "" vs """ openers, \""" inside block strings, line terminators in strings
ALPHABETS = {"FULL": A_FULL, "MID": A_MID, "Q4": A_Q4, "CORE": A_CORE, "TINY": A_TINY, "HEX": A_HEX, "HEXQ": A_HEXQ, "MICRO": A_MICRO}
assert len(A_HEX) == 20 and len(set(A_HEX)) == 20 and len(A_HEXQ) == 14 and set(A_HEXQ) <= set(A_HEX)
assert len(A_Q4) == 20 and set(A_Q4) <= set(A_MID)
assert len(A_FULL) == 59 and len(set(A_FULL)) == 59
assert len(A_MID) == 26 and len(set(A_MID)) == 26 and set(A_MID) <= set(A_FULL)
assert len(A_CORE) == 16 and len(set(A_CORE)) == 16 and set(A_CORE) <= set(A_FULL)
assert len(A_TINY) == 8 and set(A_TINY) <= set(A_FULL)

# frames: name, pre, post, entry points
FRAMES = [
    ("plain", "", "", ("lexer", "parse", "parse_value", "parse_type")),
    ("arg", "{a(x:", ")}", ("parse",)),
    ("str", '"', '"', ("lexer", "parse_value")),
    ("uni", '"\\u', '"', ("lexer", "parse_value")),
    ("blk", '"""', '"""', ("lexer", "parse_value")),
]
FRAME_INDEX = {f[0]: i for i, f in enumerate(FRAMES)}

# token alphabet (DESIGN 4.1), simplest first: (lexeme, kind, value)
_KEYWORDS = (
    "on query mutation subscription fragment true false null schema scalar type interface union enum input "
    "directive extend implements"
).split()
_LOCATIONS = ["QUERY", "FIELD_DEFINITION", "VARIABLE_DEFINITION", "NOWHERE"]
_PUNCT = ["{", "}", "(", ")", ":", "$", "@", "...", "!", "[", "]", "=", "|", "&"]
TOKENS = (
    [("a", "Name", "a")]
    + [(p, p, p) for p in _PUNCT]
    + [("1", "Int", "1"), ("1.5", "Float", "1.5"), ('"s"', "String", "s"), ('"""b"""', "BlockString", "b")]
    + [(k, "Name", k) for k in _KEYWORDS]
    + [(k, "Name", k) for k in _LOCATIONS]
    + [('"on"', "String", "on"), ('"implements"', "String", "implements")]
)
NTOK = len(TOKENS)
TOKEN_BY_LEXEME = {t[0]: i for i, t in enumerate(TOKENS)}
TOK_CLASSES = [RG.terminal_classes(k, v) for _, k, v in TOKENS]
_DESCRIBED_VALUES = frozenset(_KEYWORDS)

LAYOUTS = ("space", "tight", "bom-comment-lf", "crlf-tab")

# grammar configurations of the prefix search
P_CONFIGS = [
    ("Document", 0, 0),
    ("Value", 0, 0),
    ("Type", 0, 0),
    ("Document", 1, 0),
    ("Document", 0, 1),
    ("Document", 1, 1),
]
ENTRY_OF_START = {"Document": "parse", "Value": "parse_value", "Type": "parse_type"}
START_OF_ENTRY = {v: k for k, v in ENTRY_OF_START.items()}

TIME_CAP = {"quick": 600, "thorough": 1500}

# sub-layers of L: (alphabet, length, frames, mode, stage).  Stages order the work simplest / most valuable first:
# stage 0 runs before the prefix search, stage 1 between its tier A and tier B, so that a run cut by the time cap has
# completed whole sub-layers (the evidence counts done:<sub-layer> against BOUNDS[...]["planned_cases"]).
_ALL_FRAMES = tuple(range(len(FRAMES)))
L_PLAN = {
    "quick": [("FULL", 0, _ALL_FRAMES, "all", 0), ("FULL", 1, _ALL_FRAMES, "all", 0), ("FULL", 2, _ALL_FRAMES, "all", 0),
              ("MID", 3, _ALL_FRAMES, "all", 0), ("HEXQ", 4, (3,), "diag", 0), ("Q4", 4, _ALL_FRAMES, "diag", 1),
              ("TINY", 5, (0,), "diag", 1), ("TINY", 6, (0,), "diag", 1), ("MICRO", 7, (0,), "diag", 1), ("MICRO", 8, (0,), "diag", 1)],
    "thorough": [("FULL", 0, _ALL_FRAMES, "all", 0), ("FULL", 1, _ALL_FRAMES, "all", 0), ("FULL", 2, _ALL_FRAMES, "all", 0),
                 ("MID", 3, _ALL_FRAMES, "all", 0), ("FULL", 3, _ALL_FRAMES, "diag", 0), ("HEX", 4, (3,), "diag", 0),
                 ("MID", 4, _ALL_FRAMES, "diag", 1), ("HEXQ", 5, (3,), "diag", 1), ("CORE", 5, (0, 1), "diag", 1),
                 ("TINY", 6, (0,), "diag", 1), ("MICRO", 7, (0, 1), "diag", 1), ("MICRO", 8, (0, 1), "diag", 1),
                 ("MICRO", 9, (0,), "diag", 1)],
}
# prefix search: per tier: shard prefix length; per grammar configuration (depth of tier A, depth of tier B) where
# depth = longest prefix that is extended (inputs of up to depth+1 tokens are tried); inputs of up to ``fullx``
# tokens get the full cross product of variants
P_PLAN = {
    "quick": {"shard": 2, "fullx": 2,
              "depth": {("Document", 0, 0): (7, 7), ("Document", 0, 1): (7, 7), ("Document", 1, 0): (5, 5), ("Document", 1, 1): (5, 5),
                        ("Value", 0, 0): (7, 7), ("Type", 0, 0): (8, 8)}},
    "thorough": {"shard": 3, "fullx": 3,
                 "depth": {("Document", 0, 0): (8, 9), ("Document", 0, 1): (8, 9), ("Document", 1, 0): (5, 6), ("Document", 1, 1): (5, 6),
                           ("Value", 0, 0): (7, 8), ("Type", 0, 0): (10, 10)}},
}


def _bounds(tier):
    frames = lambda fr: "all 5" if len(fr) == len(FRAMES) else ",".join(FRAMES[i][0] for i in fr)  # noqa
    return {
        "L": [
            {"alphabet": a, "chars": len(ALPHABETS[a]), "length": n, "frames": frames(fr),
             "configs": "16 (8 flag combinations x str/bytes)" if mode == "all" else "2 diagonal (all flags off + str, all flags on + bytes)"}
            for a, n, fr, mode, _stage in L_PLAN[tier]
        ],
        "P": {
            "tokens": NTOK,
            "max_input_tokens": {"%s%s%s" % (k[0], "+ts" if k[1] else "", "+fv" if k[2] else ""): v[1] + 1 for k, v in P_PLAN[tier]["depth"].items()},
            "max_input_tokens_if_time_cap_cuts_tier_B": {"%s%s%s" % (k[0], "+ts" if k[1] else "", "+fv" if k[2] else ""): v[0] + 1 for k, v in P_PLAN[tier]["depth"].items()},
            "full_variant_cross_product_up_to_tokens": P_PLAN[tier]["fullx"],
        },
        "K": {"const_places": sum(1 for t in K_TEMPLATES if t[1]), "non_const_places": sum(1 for t in K_TEMPLATES if not t[1]),
              "fillers": len(K_FILLERS), "flag_combinations": 4, "variants_per_input": "full cross product (16; 64 for parse_value)"},
        "S": {"seed_prefixes": len(_s_seeds()), "relative_depth": S_REL_DEPTH[tier]},
        "probe_depth": 5000,
        "planned_cases": _planned(tier),
    }

PROBE_DEPTH = 5000
PROBE_SHAPES = ["selection", "list-value", "object-value", "list-type", "arg-list"]
MAX_PER_CLASS_PER_CASE = 25

# ------------------------------------------------------------------------------------------
# implementation access


class _Hang(BaseException):
    pass


_IMPL = None


def _impl():
    """lazy import of py_gql + installation of the step-budget guard on the parser's lexer."""
    global _IMPL
    if _IMPL is None:
        import py_gql.lang.lexer as LX
        import py_gql.lang.parser as PA
        import py_gql.lang.token as TK
        from py_gql.exc import GraphQLSyntaxError, UnexpectedEOF

        class GuardLexer(LX.Lexer):
            # step budget: a parser that keeps pulling tokens from an exhausted lexer (the only loop
            # in Parser._advance_window) is stopped after 3*len+64 pulls
            __slots__ = ("_pulls",)

            def __next__(self):
                try:
                    self._pulls += 1
                except AttributeError:
                    self._pulls = 1
                if self._pulls > 3 * len(self._source) + 64:
                    raise _Hang()
                return LX.Lexer.__next__(self)

        PA.Lexer = GuardLexer
        kind = {TK.Integer: "Int", TK.Float: "Float", TK.Name: "Name", TK.String: "String", TK.BlockString: "BlockString"}
        for name in (
            "ExclamationMark Dollar ParenOpen ParenClose BracketOpen BracketClose CurlyOpen CurlyClose Colon Equals At Pipe "
            "Ampersand Ellip"
        ).split():
            c = getattr(TK, name)
            kind[c] = c.value
        _IMPL = {
            "Lexer": LX.Lexer,
            "parse": PA.parse,
            "parse_value": PA.parse_value,
            "parse_type": PA.parse_type,
            "SyntaxError": GraphQLSyntaxError,
            "UnexpectedEOF": UnexpectedEOF,
            "kind": kind,
            "SOF": TK.SOF,
            "EOF": TK.EOF,
        }
    return _IMPL


def _py_gql_frames(exc):
    """[(function, line)] of the py_gql frames of the traceback, outermost first."""
    out = []
    tb = exc.__traceback__
    while tb is not None:
        code = tb.tb_frame.f_code
        if "py_gql" in code.co_filename:
            out.append((code.co_name, tb.tb_lineno))
        tb = tb.tb_next
    return out


def _innermost(exc):
    fr = _py_gql_frames(exc)
    return fr[-1][0] if fr else "?"


_OUTCOMES_SEEN = set()


def _outcome(st, key):
    if key not in _OUTCOMES_SEEN:
        _OUTCOMES_SEEN.add(key)
        st.outcome(key)


def _run(entry, src, noloc, ts, fv):
    """-> ("ok", None) | ("syn", exc) | ("exc", exc) | ("hang", None)"""
    I = _impl()
    try:
        I[entry](src, no_location=bool(noloc), allow_type_system=bool(ts), experimental_fragment_variables=bool(fv))
        return "ok", None
    except I["SyntaxError"] as e:
        return "syn", e
    except _Hang:
        return "hang", None
    except Exception as e:  # noqa -- every other exception is a violation class
        return "exc", e


def _run_lexer(src, nchars):
    """-> (tokens [(kind, start, end, value)], status, exc)"""
    I = _impl()
    kind = I["kind"]
    toks = []
    try:
        it = I["Lexer"](src)
        n = 0
        for t in it:
            n += 1
            if n > nchars + 3:
                return toks, "hang", None
            k = kind.get(t.__class__)
            if k is not None:
                toks.append((k, t.start, t.end, t.value))
        return toks, "ok", None
    except I["SyntaxError"] as e:
        return toks, "syn", e
    except Exception as e:  # noqa
        return toks, "exc", e


def _error_checks(e, nchars, seen=None):
    """the clauses about the error object: position inside the text, renderable, JSON-serialisable.

    ``seen``: memo for one source text -- rendering only depends on (class, position, message)."""
    name = type(e).__name__
    pos = getattr(e, "position", None)
    if seen is not None:
        key = (type(e), pos, getattr(e, "message", None))
        r = seen.get(key)
        if r is not None:
            return r
        r = seen[key] = _error_checks(e, nchars)
        return r
    if not isinstance(pos, int) or isinstance(pos, bool) or pos < 0 or pos > nchars:
        rendered = []
        for label, fn in (("str", str), ("to_dict", lambda x: x.to_dict())):
            try:
                fn(e)
                rendered.append("%s() ok" % label)
            except Exception as x:  # noqa
                rendered.append("%s() raises %s" % (label, type(x).__name__))
        delta = ("+%d" % (pos - nchars)) if isinstance(pos, int) and pos > nchars else "negative-or-not-int"
        return [
            (
                "bad-position/exc=%s/in=%s/pos-len=%s" % (name, _innermost(e), delta),
                "position=%r but the text has %d characters; %s" % (pos, nchars, ", ".join(rendered)),
            )
        ]
    out = []
    for label, fn in (
        ("str", lambda x: str(x)),
        ("highlighted", lambda x: x.highlighted),
        ("to_dict", lambda x: x.to_dict()),
    ):
        try:
            r = fn(e)
            if label == "to_dict":
                if not isinstance(r, dict):
                    raise TypeError("to_dict() returned %s" % type(r).__name__)
                json.dumps(r)
            elif not isinstance(r, str):
                raise TypeError("%s returned %s" % (label, type(r).__name__))
        except Exception as x:  # noqa
            out.append(
                (
                    # keyed by where the *rendering* fails, not by where the syntax error was raised
                    "render-raises/%s:%s/in=%s" % (label, type(x).__name__, _innermost(x)),
                    "%s raised at %s with position=%r len=%d: %s raised %r" % (name, _innermost(e), pos, nchars, label, x),
                )
            )
    return out


# ------------------------------------------------------------------------------------------
# class keys


def _bucket(text, p):
    """class of the character at offset p, by the predicates the specification and the implementation use"""
    if p is None or p >= len(text) or p < 0:
        return "EOF"
    c = text[p]
    o = ord(c)
    if o < 128:
        if c in "0123456789":
            return "ascii-digit"
        if c == "_" or c.isalpha():
            return "ascii-letter"
        if c == '"':
            return "quote"
        if c == "\\":
            return "backslash"
        if c in " \t\n\r,":
            return "ascii-ignored"
        if o < 32 or o == 127:
            return "ascii-control"
        return "ascii-punct"
    if 0xD800 <= o <= 0xDFFF:
        return "surrogate"
    if o == 0xFEFF:
        return "bom"
    if c.isdigit():
        return "isdigit-nonascii"
    if c.isalnum():
        return "isalnum-nonascii"
    if c.isspace():
        return "isspace-nonascii"
    if o > 0xFFFF:
        return "astral"
    return "nonascii-" + unicodedata.category(c)


def _tokdesc(kind, value, expected=()):
    """token description for class keys: the value is only kept where it explains the disagreement
    (a string spelling an expected keyword, a Name the expected Name-class excludes)."""
    if kind == "Name":
        if value in ("true", "false", "null") and "EnumName" in expected:
            return "Name:true|false|null"
        if value == "on" and "NameNotOn" in expected:
            return "Name:on"
        if ("ExecLoc" in expected or "TsLoc" in expected) and "Name" not in expected:
            return "Name:not-a-directive-location"
        return "Name:" + value if (not expected and value in _DESCRIBED_VALUES) else "Name"
    if kind in ("String", "BlockString"):
        if ("kw:" + value) in expected or (not expected and value in _DESCRIBED_VALUES):
            return "%s:%s" % (kind, value)
        return kind
    return kind


def _lex_div(text, impl_toks, impl_status, impl_exc, ref_toks, ref_err):
    """first difference of the two token streams -> None (they agree) or
    (impl descriptor, ref descriptor, offset where the differing token starts)."""
    n = max(len(impl_toks), len(ref_toks)) + 1
    for i in range(n):
        if i < len(impl_toks):
            a = impl_toks[i]
            da = a[0]
        elif impl_status != "ok":
            a = None
            da = "ERR:" + (type(impl_exc).__name__ if impl_exc is not None else impl_status)
        else:
            a = None
            da = "END"
        if i < len(ref_toks):
            b = ref_toks[i]
            db = b[0]
        elif ref_err is not None:
            b = None
            db = "ERR"
        else:
            b = None
            db = "END"
        if a is not None and b is not None:
            same = a[0] == b[0] and a[1] == b[1] and a[2] == b[2]
            if same and a[0] in ("Name", "Int", "Float") and a[3] != b[3]:
                return da + "(value)", db, a[1]
            if same:
                continue
            return da, db, min(a[1], b[1])
        if a is None and b is None:
            if da.startswith("ERR") and db == "ERR":
                return None  # both fail here: error positions are not compared (oracle decision (iii))
            if da == "END" and db == "END":
                return None
        # one side has a token or an error where the other has an error or nothing
        prev_end = 0
        if i > 0:
            prev_end = (impl_toks[i - 1] if i - 1 < len(impl_toks) else ref_toks[i - 1])[2]
        lo = min(x[1] for x in (a, b) if x is not None) if (a is not None or b is not None) else prev_end
        return da, db, lo
    return None


def _lex_divergence(text, impl_toks, impl_status, impl_exc, ref_toks, ref_err):
    d = _lex_div(text, impl_toks, impl_status, impl_exc, ref_toks, ref_err)
    if d is None:
        return None
    return "lex/impl=%s/ref=%s/char=?" % (d[0], d[1])


def _lex_div_of(text):
    it, status, exc = _run_lexer(text, len(text))
    rt, rerr = RL.lex(text)
    return _lex_div(text, it, status, exc, rt, rerr), rerr


def _lex_class(text):
    """class key of a lexical disagreement, derived mechanically on a *minimised* text: the shortest
    prefix on which the two lexers already disagree, from which every character whose deletion
    keeps the same disagreement (same implementation / reference outcome) has been dropped, right
    to left.  The character named in the key is the first non-ASCII character of the disagreeing
    token if there is one (the implementation's predicates are Unicode-aware, the grammar's are
    ASCII), otherwise the character the reference lexer refuses, otherwise the last character."""
    for n in range(1, len(text) + 1):
        d, rerr = _lex_div_of(text[:n])
        if d is not None:
            break
    else:
        return None
    m = text[:n]
    kinds = (d[0], d[1])
    i = len(m) - 1
    while i >= 0 and len(m) > 1:
        cand = m[:i] + m[i + 1 :]
        d2, rerr2 = _lex_div_of(cand)
        if d2 is not None and (d2[0], d2[1]) == kinds:
            m, d, rerr = cand, d2, rerr2
        i -= 1
    da, db, lo = d
    p = len(m) - 1
    if db == "ERR" and rerr is not None and rerr[0] < len(m):
        p = rerr[0]
    for q in range(max(lo, 0), len(m)):
        if ord(m[q]) > 127:
            p = q
            break
    return "lex/impl=%s/ref=%s/char=%s" % (da, db, _bucket(m, p))


_NAME_TERMINALS = ("Name", "NameNotOn", "EnumName", "ExecLoc", "TsLoc")


def _related(kind, value, expected):
    """the expected terminals that have to do with the refused token (all of them for END / punctuators)"""
    if kind == "Name":
        r = [x for x in expected if x in _NAME_TERMINALS or x.startswith("kw:")]
    elif kind in ("String", "BlockString"):
        r = [x for x in expected if x in ("String", "BlockString") or x == "kw:" + value]
    elif kind == "$" and "Int" in expected and "[" in expected:
        # a variable where the grammar wants Value[Const] (directly or as a list item)
        r = ["<const-value>"]
    else:
        r = []
    if kind == "Name" and len(r) > 6:
        r = [x for x in r if not x.startswith("kw:")] + ["kw:*%d" % sum(1 for x in r if x.startswith("kw:"))]
    return r or list(expected) or ["<end-of-construct>"]


def _ref_death(start, ts, fv, kv_tokens):
    """-> (description of the token at which ``start`` stops deriving the sequence, expected terminals)"""
    R = RG.recogniser(start, ts, fv)
    chart = R.initial
    for kind, value in kv_tokens:
        c2 = R.push(chart, RG.terminal_classes(kind, value))
        if c2 is None:
            exp = R.expected(chart)
            return _tokdesc(kind, value, exp), _related(kind, value, exp)
        chart = c2
    if R.accepts(chart):
        return None, None
    return "END", R.expected(chart)


def _ast_children(node):
    out = []
    for attr in getattr(node, "__slots__", ()):
        if attr in ("source", "loc"):
            continue
        v = getattr(node, attr, None)
        if isinstance(v, list):
            out.extend(x for x in v if hasattr(x, "loc") and hasattr(x, "__slots__"))
        elif v is not None and hasattr(v, "loc") and hasattr(v, "__slots__") and not isinstance(v, (str, bool, int)):
            out.append(v)
    out = [c for c in out if c.loc is not None]
    out.sort(key=lambda c: c.loc)
    return out


def _syn_accept_class(entry, text, ts, fv):
    """implementation accepted, reference rejected.  Root-cause key ("misparse"): the *innermost*
    node of the implementation's own tree whose tokens the like-named nonterminal of the reference
    grammar does not derive, and where / expecting what the reference stops inside that node."""
    start = START_OF_ENTRY[entry]
    toks, err = RL.lex(text)
    if err is not None:
        return "syn/misparse/reference-lexer-rejects"
    kv = [(t[0], t[3]) for t in toks]
    generic_dead, generic_exp = _ref_death(start, ts, fv, kv)
    generic = "syn/misparse/node=?/ref-stops-at=%s/expected=%s" % (generic_dead, ",".join(generic_exp or ()))
    try:
        node = _impl()[entry](text, no_location=False, allow_type_system=bool(ts), experimental_fragment_variables=bool(fv))
    except Exception:  # noqa
        return generic
    rules = RG.compiled(ts, fv).rules
    best = None
    if type(node).__name__ in rules:
        dead, exp = _ref_death(type(node).__name__, ts, fv, kv)
        if dead is not None:
            best = (type(node).__name__, dead, exp)
    for _ in range(10000):
        failing_child = None
        for c in _ast_children(node):
            nt = type(c).__name__
            if nt not in rules:
                continue
            lo, hi = c.loc
            sub = [(t[0], t[3]) for t in toks if t[1] >= lo and t[2] <= hi]
            dead, exp = _ref_death(nt, ts, fv, sub)
            if dead is not None:
                failing_child = c
                best = (nt, dead, exp)
                break
        if failing_child is None:
            break
        node = failing_child
    if best is None:
        return generic
    return "syn/misparse/node=%s/ref-stops-at=%s/expected=%s" % (best[0], best[1], ",".join(best[2]))


def _syn_reject_class(e, text, entry=None, ts=0, fv=0):
    """implementation rejected, reference accepted.  If a proper token-prefix of the text is already
    wrongly *accepted* by the implementation, the rejection is a consequence of that misparse and
    gets its key (one root cause, one class); otherwise: at which token (and after which), in which
    parse function the implementation gave up."""
    toks, _ = RL.lex(text)
    if entry is not None:
        start = START_OF_ENTRY[entry]
        R = RG.recogniser(start, ts, fv)
        chart = R.initial
        for k in range(len(toks) - 1):
            chart = R.push(chart, RG.terminal_classes(toks[k][0], toks[k][3])) if chart is not None else None
            if chart is not None and R.accepts(chart):
                continue
            pre = text[: toks[k][2]]
            status, _e = _run(entry, pre, 0, ts, fv)
            if status == "ok":
                return _syn_accept_class(entry, pre, ts, fv), "shortest wrongly accepted prefix: %r" % pre
    pos = getattr(e, "position", None)
    at = "EOF"
    after = "SOF"
    if isinstance(pos, int):
        prev = None
        for k, s, en, v in toks:
            if pos < en or pos <= s:
                at = _tokdesc(k, v)
                break
            prev = (k, v)
        else:
            prev = (toks[-1][0], toks[-1][3]) if toks else None
        if prev is not None:
            after = _tokdesc(*prev)
    return "syn/impl-rejects/exc=%s/at=%s/after=%s/in=%s" % (type(e).__name__, at, after, _innermost(e)), ""


# ------------------------------------------------------------------------------------------
# configurations

# (no_location, allow_type_system, experimental_fragment_variables, bytes?)
ALL_CONFIGS = [(nl, ts, fv, b) for b in (0, 1) for nl in (0, 1) for ts in (0, 1) for fv in (0, 1)]
DIAG_CONFIGS = [(0, 0, 0, 0), (1, 1, 1, 1)]


def _only_suffix(failing, configs):
    """class-key suffix for a violation that shows only with bytes input / only with no_location=True
    while the twin configuration (same text as str / with locations) is fine."""
    fset = set(failing)
    cset = set(configs)
    parts = []
    for idx, name in ((3, "bytes-only"), (0, "no_location-only")):
        if all(c[idx] == 1 for c in failing):
            twins = [c[:idx] + (0,) + c[idx + 1 :] for c in failing]
            if all(t in cset and t not in fset for t in twins):
                parts.append(name)
    return ("/" + ",".join(parts)) if parts else ""


_REF_CACHE = {}


def _ref_accepts(start, ts, fv, ref_toks):
    if start != "Document":
        ts = fv = 0
    key = (start, ts, fv, tuple((t[0], t[3]) if t[0] == "Name" else t[0] for t in ref_toks))
    r = _REF_CACHE.get(key)
    if r is None:
        if len(_REF_CACHE) > 300000:
            _REF_CACHE.clear()
        r = _REF_CACHE[key] = RG.recogniser(start, ts, fv).run(RG.classes_of(ref_toks))[0]
    return r


# ------------------------------------------------------------------------------------------
# layer L


def _eval_text(text, entries, configs, st):
    """run one text through the given entry points / configurations -> {class: detail}"""
    found = {}
    nchars = len(text)
    seen = {}
    try:
        data = text.encode("utf-8")
    except UnicodeEncodeError:
        data = None
    ref_toks, ref_err = RL.lex(text)
    # -- the Lexer on its own: gives the lexical class key; its errors are checked like any other
    impl_toks, lstatus, lexc = _run_lexer(text, nchars)
    if st is not None:
        st.n("evaluations")
    if lstatus == "syn":
        for cls, d in _error_checks(lexc, nchars, seen):
            found.setdefault(cls, "Lexer(%r): %s" % (text, d))
    elif lstatus == "exc":
        found.setdefault(
            "wrong-exception:%s/in=%s" % (type(lexc).__name__, _innermost(lexc)), "Lexer(%r) raised %r" % (text, lexc)
        )
    elif lstatus == "hang":
        found.setdefault("hang/lexer", "Lexer(%r) delivered more tokens than characters" % (text,))
    lexdiv = _lex_divergence(text, impl_toks, lstatus, lexc, ref_toks, ref_err)
    memo = []

    def lexclass():
        if not memo:
            memo.append(_lex_class(text) or lexdiv)
        return memo[0]

    if st is not None and lexdiv is None and ref_err is None and lstatus == "ok":
        for a, b in zip(impl_toks, ref_toks):
            if a[3] != b[3]:
                st.n("info:string-value-differs(C02)")
                break
    if "lexer" in entries and data is not None:
        btoks, bstatus, bexc = _run_lexer(data, nchars)
        if st is not None:
            st.n("evaluations")
        same = bstatus == lstatus and [t[:3] for t in btoks] == [t[:3] for t in impl_toks]
        if bstatus == "syn" and lstatus == "syn":
            same = same and type(bexc) is type(lexc)
            for cls, d in _error_checks(bexc, nchars, seen):
                found.setdefault(cls + ("" if cls in found else "/bytes-only"), "Lexer(%r): %s" % (data, d))
        if not same:
            found.setdefault(
                "lexer-bytes-differs-from-str/str=%s/bytes=%s"
                % (
                    type(lexc).__name__ if lexc is not None else lstatus,
                    type(bexc).__name__ if bexc is not None else bstatus,
                ),
                "Lexer(%r) and Lexer(%r) give different token streams / errors" % (text, data),
            )
    any_accept = False
    parse_verdict_differs = False
    for entry in entries:
        if entry == "lexer":
            continue
        start = START_OF_ENTRY[entry]
        per_class = {}
        passing = []
        for cfg in configs:
            nl, ts, fv, b = cfg
            if b and data is None:
                continue
            ref_ok = ref_err is None and _ref_accepts(start, ts, fv, ref_toks)
            status, e = _run(entry, data if b else text, nl, ts, fv)
            if st is not None:
                st.n("evaluations")
                _outcome(st, (entry, status, type(e).__name__ if e is not None else ""))
            viol = []
            if status == "ok":
                if not ref_ok:
                    parse_verdict_differs = True
                    if lexdiv is not None:
                        viol.append((lexclass(), "%s accepts, reference rejects" % entry))
                    else:
                        viol.append((_syn_accept_class(entry, text, ts, fv), "%s accepts, reference rejects" % entry))
                else:
                    any_accept = True
            elif status == "syn":
                viol.extend(_error_checks(e, nchars, seen))
                if ref_ok:
                    parse_verdict_differs = True
                    if lexdiv is not None:
                        viol.append((lexclass(), "%s rejects (%s), reference accepts" % (entry, type(e).__name__)))
                    else:
                        cls, why = _syn_reject_class(e, text, entry, ts, fv)
                        viol.append((cls, "%s rejects (%s at %r), reference accepts; %s" % (entry, type(e).__name__, e.position, why)))
            elif status == "exc":
                viol.append(("wrong-exception:%s/in=%s" % (type(e).__name__, _innermost(e)), "%s raised %r" % (entry, e)))
            else:
                viol.append(("hang/parser", "%s kept pulling tokens from an exhausted lexer" % entry))
            if viol:
                for cls, d in viol:
                    per_class.setdefault(cls, []).append((cfg, d))
            else:
                passing.append(cfg)
        for cls, lst in per_class.items():
            failing = [c for c, _ in lst]
            suffix = _only_suffix(failing, configs)
            cfg, d = lst[0]
            found.setdefault(
                cls + suffix,
                "%s(%r, no_location=%d, allow_type_system=%d, experimental_fragment_variables=%d, bytes=%d): %s [%d of %d configs]"
                % (entry, text, cfg[0], cfg[1], cfg[2], cfg[3], d, len(failing), len(configs)),
            )
    if st is not None:
        if any_accept:
            st.nt(("L", text))
        elif len(ref_toks) >= 1 and len(impl_toks) >= 1:
            st.n("nontrivial_rejects")
        if lexdiv is not None and not parse_verdict_differs:
            st.n("info:lexer-stream-differs-without-verdict-difference")
            if st.counters.get("info:lexer-stream-differs-without-verdict-difference", 0) <= 1:
                st.note("lexer stream differs without any parse verdict difference, e.g. %r (%s)" % (text, lexclass()))
    return found


def _frame_text(fi, s):
    f = FRAMES[fi]
    return f[1] + s + f[2]


def _check_L(case, st):
    alpha = ALPHABETS[case["alphabet"]]
    n = case["len"]
    configs = ALL_CONFIGS if case["mode"] == "all" else DIAG_CONFIGS
    pre = "".join(alpha[i] for i in case["pre"])
    per_class = {}
    count = 0
    for suffix in itertools.product(alpha, repeat=n - len(case["pre"])):
        s = pre + "".join(suffix)
        count += 1
        if count % 256 == 0 and st.out_of_time():
            st.n("L/cut_by_time_cap")
            break
        for fi in case["frames"]:
            if count == 37 and len(st.samples) < st.MAX_SAMPLES - 2:
                st.sample({"layer": "L", "alphabet": case["alphabet"], "frame": FRAMES[fi][0], "text": _frame_text(fi, s),
                           "entry_points": list(FRAMES[fi][3]), "configurations": len(configs)})
            found = _eval_text(_frame_text(fi, s), FRAMES[fi][3], configs, st)
            if found and configs is not ALL_CONFIGS:
                # class keys are always derived from the full set of configurations (as replay does)
                found = _eval_text(_frame_text(fi, s), FRAMES[fi][3], ALL_CONFIGS, None)
            if found:
                for cls, d in found.items():
                    k = per_class.get(cls, 0)
                    per_class[cls] = k + 1
                    if k < MAX_PER_CLASS_PER_CASE:
                        yield cls, {"layer": "L", "frame": FRAMES[fi][0], "s": s}, d
                    else:
                        st.n("suppressed_beyond_per_case_cap")
    st.n("L/strings", count)
    st.mx("L/length/" + case["alphabet"], n)


# ------------------------------------------------------------------------------------------
# layer P


def _layout(lexemes, kinds, layout):
    if layout == 0:
        return " ".join(lexemes)
    if layout == 1:
        out = []
        for i, lx in enumerate(lexemes):
            if i:
                a, b = kinds[i - 1], kinds[i]
                pa = a not in ("Name", "Int", "Float", "String", "BlockString")
                pb = b not in ("Name", "Int", "Float", "String", "BlockString")
                tight = (pa or pb) and not (a in ("Int", "Float") and b == "...")
                out.append("" if tight else ",")
            out.append(lx)
        return "".join(out)
    if layout == 2:
        return "\ufeff" + " #c\n".join(lexemes) + "#c"
    return "\t" + "\r\n\t".join(lexemes) + "\r"


def _p_variants(start, ts, fv, full):
    """[(no_location, ts, fv, bytes, layout)]; the first one is the base variant."""
    if start == "Document":
        if full:
            return [(nl, ts, fv, b, lay) for lay in range(4) for b in (0, 1) for nl in (0, 1)]
        return [(0, ts, fv, 0, 0), (1, ts, fv, 0, 1), (0, ts, fv, 1, 2), (1, ts, fv, 1, 3)]
    if full:
        return [(nl, t, f, b, lay) for lay in range(4) for b in (0, 1) for nl in (0, 1) for t in (0, 1) for f in (0, 1)]
    return [(0, 0, 0, 0, 0), (1, 1, 0, 0, 1), (0, 0, 1, 1, 2), (1, 1, 1, 1, 3)]


def _impl_signature(status, e, text):
    """abstract control state of the implementation after rejecting / accepting ``text`` (layout 0:
    single spaces, so the number of spaces before the error position is the index of the token)"""
    if status == "ok":
        return ("ok",)
    if status == "syn":
        pos = e.position
        tok = text.count(" ", 0, pos) if isinstance(pos, int) and 0 <= pos < len(text) else -1
        return ("syn", type(e).__name__, tok, tuple(_py_gql_frames(e)))
    if status == "exc":
        return ("exc", type(e).__name__, tuple(_py_gql_frames(e)))
    return (status,)


def _impl_wants_more(status, e, text):
    if status != "syn":
        return False
    return isinstance(e, _impl()["UnexpectedEOF"]) or (isinstance(e.position, int) and e.position >= len(text))


def _test_sequence(start, ts, fv, toks, ref_ok, variants, st):
    """run the token sequence (indices into TOKENS) under every variant -> ({class: detail}, base status, base exc, base text)"""
    entry = ENTRY_OF_START[start]
    lexemes = [TOKENS[i][0] for i in toks]
    kinds = [TOKENS[i][1] for i in toks]
    per_class = {}
    passing = []
    base = None
    texts = {}
    seen = {}
    for v in variants:
        nl, vts, vfv, b, lay = v
        text = texts.get(lay)
        if text is None:
            text = texts[lay] = _layout(lexemes, kinds, lay)
        status, e = _run(entry, text.encode("utf-8") if b else text, nl, vts, vfv)
        if base is None:
            base = (status, e, text)
        if st is not None:
            st.n("evaluations")
            _outcome(st, (entry, status, type(e).__name__ if e is not None else ""))
        viol = []
        if status == "ok":
            if not ref_ok:
                viol.append((_syn_accept_class(entry, text, vts, vfv), "%s accepts, reference rejects" % entry))
        elif status == "syn":
            viol.extend(_error_checks(e, len(text), seen.setdefault(lay, {})))
            if ref_ok:
                cls, why = _syn_reject_class(e, text, entry, vts, vfv)
                viol.append((cls, "%s rejects (%s at %r), reference accepts; %s" % (entry, type(e).__name__, e.position, why)))
        elif status == "exc":
            viol.append(("wrong-exception:%s/in=%s" % (type(e).__name__, _innermost(e)), "%s raised %r" % (entry, e)))
        else:
            viol.append(("hang/parser", "%s kept pulling tokens from an exhausted lexer" % entry))
        if viol:
            for cls, d in viol:
                per_class.setdefault(cls, []).append((v, d, text))
        else:
            passing.append(v)
    found = {}
    for cls, lst in per_class.items():
        failing = [c for c, _, _ in lst]
        suffix = _only_suffix(failing, variants)
        v, d, text = lst[0]
        found[cls + suffix] = (
            "%s(%r, no_location=%d, allow_type_system=%d, experimental_fragment_variables=%d, bytes=%d) [layout %s]: %s [%d of %d variants]"
            % (entry, text, v[0], v[1], v[2], v[3], LAYOUTS[v[4]], d, len(failing), len(variants))
        )
    return found, base


class _PSearch:
    """depth-first prefix search for one grammar configuration"""

    def __init__(self, start, ts, fv, fullx, st, report_from=0):
        self.start, self.ts, self.fv = start, ts, fv
        self.R = RG.recogniser(start, ts, fv)
        self.fullx = fullx
        self.st = st
        self.report_from = report_from  # inputs shorter than this were reported by an earlier case
        self.out = []
        self.per_class = {}
        self.cut = False

    def chart_of(self, prefix):
        chart = self.R.initial
        for t in prefix:
            if chart is None:
                return None
            chart = self.R.push(chart, TOK_CLASSES[t])
        return chart

    def expand(self, prefix, chart, report):
        """try all one-token extensions of ``prefix`` as complete inputs; -> representatives [(token, chart)]"""
        st = self.st if report else None
        R = self.R
        groups = {}
        reps = []
        n = len(prefix) + 1
        variants = _p_variants(self.start, self.ts, self.fv, n <= self.fullx) if report else _p_variants(self.start, self.ts, self.fv, False)[:1]
        for t in range(NTOK):
            c2 = R.push(chart, TOK_CLASSES[t]) if chart is not None else None
            ref_ok = c2 is not None and R.accepts(c2)
            seq = prefix + (t,)
            found, base = _test_sequence(self.start, self.ts, self.fv, seq, ref_ok, variants, st)
            if found and report and n > self.fullx:
                # class keys are always derived from the full cross product of variants (as replay does)
                found, _b = _test_sequence(self.start, self.ts, self.fv, seq, ref_ok, _p_variants(self.start, self.ts, self.fv, True), None)
            status, e, text = base
            if report:
                if ref_ok and status == "ok":
                    st.nt((self.start, self.ts, self.fv, text))
                    if n >= 4 and len(st.samples) < st.MAX_SAMPLES and st.counters.get("P/inputs", 0) % 53 == 0:
                        st.sample({"layer": "P", "entry": ENTRY_OF_START[self.start], "allow_type_system": self.ts,
                                   "experimental_fragment_variables": self.fv, "text": text, "verdict": "accepted by both"})
                elif n > 1 and (c2 is not None or (status == "syn" and isinstance(e.position, int) and e.position > len(TOKENS[seq[0]][0]))):
                    st.n("nontrivial_rejects")
                st.n("P/inputs")
                for cls, d in found.items():
                    k = self.per_class.get(cls, 0)
                    self.per_class[cls] = k + 1
                    if k < MAX_PER_CLASS_PER_CASE:
                        self.out.append(
                            (cls, {"layer": "P", "start": self.start, "ts": self.ts, "fv": self.fv, "toks": [TOKENS[i][0] for i in seq]}, d)
                        )
                    else:
                        st.n("suppressed_beyond_per_case_cap")
            viable = c2 is not None or _impl_wants_more(status, e, text)
            if viable:
                key = (R.signature(c2) if c2 is not None else None, _impl_signature(status, e, text))
                if key not in groups:
                    groups[key] = t
                    reps.append((t, c2))
        return reps

    def dfs(self, prefix, chart, depth, report_min_len):
        """explore every node below ``prefix`` whose prefix length is <= depth"""
        if self.st.out_of_time():
            self.cut = True
            return
        report = len(prefix) + 1 >= report_min_len
        if report:
            self.st.n("P/prefixes")
            self.st.mx("P/prefix_tokens/%s%s%s" % (self.start, "+ts" if self.ts else "", "+fv" if self.fv else ""), len(prefix))
            if chart is None:
                self.st.n("P/prefixes_dead_for_reference_but_alive_for_implementation")
        reps = self.expand(prefix, chart, report)
        if len(prefix) < depth:
            for t, c2 in reps:
                self.dfs(prefix + (t,), c2, depth, report_min_len)
                if self.cut:
                    return


_FRONTIER = {}


def _frontier_reps(start, ts, fv, prefix):
    """representative tokens at ``prefix`` (cached per process; used to decide which shard prefixes are explored)"""
    key = (start, ts, fv, prefix)
    r = _FRONTIER.get(key)
    if r is None:
        s = _PSearch(start, ts, fv, 0, None)
        chart = s.chart_of(prefix)
        r = _FRONTIER[key] = {t: c2 for t, c2 in s.expand(prefix, chart, False)}
    return r


def _on_frontier(start, ts, fv, prefix):
    for i in range(len(prefix)):
        if prefix[i] not in _frontier_reps(start, ts, fv, tuple(prefix[:i])):
            return False
    return True


def _check_P(case, st):
    start, ts, fv = case["start"], case["ts"], case["fv"]
    kind = case["kind"]
    if kind == "root":
        # all inputs of length <= shard: nodes with prefix length < shard
        s = _PSearch(start, ts, fv, case["fullx"], st)
        s.dfs((), s.R.initial, case["shard"] - 1, 0)
        if s.cut:
            st.n("P/cut/root")
        return s.out
    prefix = tuple(case["prefix"])
    if not _on_frontier(start, ts, fv, prefix):
        return ()
    st.n("P/shards_explored")
    s = _PSearch(start, ts, fv, case["fullx"], st)
    chart = s.chart_of(prefix)
    s.dfs(prefix, chart, case["depth"], case["report_min_len"])
    if s.cut:
        st.n("P/cut/tier=%s" % case["tier"])
    return s.out


# ------------------------------------------------------------------------------------------
# layers K (const-ness) and S (contexts seeded from minimal instances)
#
# The prefix search reaches 6-10 tokens; the *places* where the grammar takes Value[Const] /
# Directives[Const] lie deeper (`enum E { A @d(x: #) }` is 12 tokens).  K writes down, for EVERY
# production of the reference grammar that takes a Const value or Const directives, the minimal valid
# instance with a hole, and for the dual every non-Const place of the executable grammar; the hole is
# filled with a variable at top level, inside a list, inside an object value and nested twice, plus
# constant controls.  The verdict still comes from the Earley recogniser (the self-test asserts that
# it rejects / accepts what the Const parameter says).  S re-uses the same minimal instances as
# *seeds* for the prefix search: every proper prefix of every instance is explored to a small
# relative depth, so that every token of the alphabet is tried at every position of every
# production, however deep that position lies.

_DIR = "@ a ( a : # )"
# (name, const?, start symbol, home allow_type_system, home fragment variables, tokens with hole '#')
K_TEMPLATES = [
    # ---- Directives[Const] on every type-system definition / extension kind
    ("dir/schema", 1, "Document", 1, 0, "schema %s { query : a }" % _DIR),
    ("dir/extend-schema", 1, "Document", 1, 0, "extend schema %s" % _DIR),
    ("dir/extend-schema-ops", 1, "Document", 1, 0, "extend schema %s { query : a }" % _DIR),
    ("dir/scalar", 1, "Document", 1, 0, "scalar a %s" % _DIR),
    ("dir/extend-scalar", 1, "Document", 1, 0, "extend scalar a %s" % _DIR),
    ("dir/object", 1, "Document", 1, 0, "type a %s { a : a }" % _DIR),
    ("dir/object-implements", 1, "Document", 1, 0, "type a implements a %s" % _DIR),
    ("dir/extend-object", 1, "Document", 1, 0, "extend type a %s" % _DIR),
    ("dir/field-definition", 1, "Document", 1, 0, "type a { a : a %s }" % _DIR),
    ("dir/extend-object-field-definition", 1, "Document", 1, 0, "extend type a { a : a %s }" % _DIR),
    ("dir/interface-field-definition", 1, "Document", 1, 0, "interface a { a : a %s }" % _DIR),
    ("dir/extend-interface-field-definition", 1, "Document", 1, 0, "extend interface a { a : a %s }" % _DIR),
    ("dir/argument-definition", 1, "Document", 1, 0, "type a { a ( a : a %s ) : a }" % _DIR),
    ("dir/argument-definition-after-default", 1, "Document", 1, 0, "type a { a ( a : a = 1 %s ) : a }" % _DIR),
    ("dir/interface-argument-definition", 1, "Document", 1, 0, "interface a { a ( a : a %s ) : a }" % _DIR),
    ("dir/directive-argument-definition", 1, "Document", 1, 0, "directive @ a ( a : a %s ) on QUERY" % _DIR),
    ("dir/interface", 1, "Document", 1, 0, "interface a %s" % _DIR),
    ("dir/extend-interface", 1, "Document", 1, 0, "extend interface a %s" % _DIR),
    ("dir/union", 1, "Document", 1, 0, "union a %s = a" % _DIR),
    ("dir/extend-union", 1, "Document", 1, 0, "extend union a %s" % _DIR),
    ("dir/enum", 1, "Document", 1, 0, "enum a %s { a }" % _DIR),
    ("dir/extend-enum", 1, "Document", 1, 0, "extend enum a %s" % _DIR),
    ("dir/enum-value", 1, "Document", 1, 0, "enum a { a %s }" % _DIR),
    ("dir/enum-value-described", 1, "Document", 1, 0, 'enum a { "s" a %s a }' % _DIR),
    ("dir/extend-enum-value", 1, "Document", 1, 0, "extend enum a { a %s }" % _DIR),
    ("dir/input-object", 1, "Document", 1, 0, "input a %s { a : a }" % _DIR),
    ("dir/extend-input-object", 1, "Document", 1, 0, "extend input a %s" % _DIR),
    ("dir/input-field", 1, "Document", 1, 0, "input a { a : a %s }" % _DIR),
    ("dir/input-field-after-default", 1, "Document", 1, 0, "input a { a : a = 1 %s }" % _DIR),
    ("dir/extend-input-field", 1, "Document", 1, 0, "extend input a { a : a %s }" % _DIR),
    # ---- Directives[Const] on variable definitions (documented extension)
    ("dir/variable-definition", 1, "Document", 0, 0, "query ( $ a : a %s ) { a }" % _DIR),
    ("dir/variable-definition-after-default", 1, "Document", 0, 0, "query ( $ a : a = 1 %s ) { a }" % _DIR),
    ("dir/fragment-variable-definition", 1, "Document", 0, 1, "fragment a ( $ a : a %s ) on a { a }" % _DIR),
    # ---- DefaultValue : = Value[Const]
    ("default/variable-definition", 1, "Document", 0, 0, "query ( $ a : a = # ) { a }"),
    ("default/second-variable-definition", 1, "Document", 0, 0, "mutation a ( $ a : a $ a : [ a ] ! = # ) { a }"),
    ("default/fragment-variable-definition", 1, "Document", 0, 1, "fragment a ( $ a : a = # ) on a { a }"),
    ("default/argument-definition", 1, "Document", 1, 0, "type a { a ( a : a = # ) : a }"),
    ("default/extend-object-argument-definition", 1, "Document", 1, 0, "extend type a { a ( a : a = # ) : a }"),
    ("default/interface-argument-definition", 1, "Document", 1, 0, "interface a { a ( a : a = # ) : a }"),
    ("default/directive-argument-definition", 1, "Document", 1, 0, "directive @ a ( a : a = # ) on QUERY"),
    ("default/input-field", 1, "Document", 1, 0, "input a { a : a = # }"),
    ("default/extend-input-field", 1, "Document", 1, 0, "extend input a { a : a = # }"),
    # ---- the dual: non-Const places of executable definitions (and the standalone value entry point)
    ("nonconst/field-argument", 0, "Document", 0, 0, "{ a ( a : # ) }"),
    ("nonconst/aliased-field-second-argument", 0, "Document", 0, 0, "query a { a : a ( a : 1 a : # ) { a } }"),
    ("nonconst/field-directive", 0, "Document", 0, 0, "{ a %s }" % _DIR),
    ("nonconst/field-directive-after-arguments", 0, "Document", 0, 0, "{ a ( a : 1 ) %s { a } }" % _DIR),
    ("nonconst/operation-directive", 0, "Document", 0, 0, "query %s { a }" % _DIR),
    ("nonconst/operation-directive-after-variables", 0, "Document", 0, 0, "subscription a ( $ a : a ) %s { a }" % _DIR),
    ("nonconst/fragment-spread-directive", 0, "Document", 0, 0, "{ ... a %s }" % _DIR),
    ("nonconst/inline-fragment-directive", 0, "Document", 0, 0, "{ ... %s { a } }" % _DIR),
    ("nonconst/inline-fragment-on-directive", 0, "Document", 0, 0, "{ ... on a %s { a } }" % _DIR),
    ("nonconst/fragment-definition-directive", 0, "Document", 0, 0, "fragment a on a %s { a }" % _DIR),
    ("nonconst/fragment-definition-directive-after-variables", 0, "Document", 0, 1, "fragment a ( $ a : a ) on a %s { a }" % _DIR),
    ("nonconst/parse_value", 0, "Value", 0, 0, "#"),
]
# fillers of the hole: (name, tokens, contains a variable?)
K_FILLERS = [
    ("const", "1", 0),
    ("const-list", "[ 1 a ]", 0),
    ("const-object", "{ a : 1 }", 0),
    ("variable", "$ a", 1),
    ("variable-named-by-keyword", "$ on", 1),
    ("variable-in-list", "[ $ a ]", 1),
    ("variable-after-constant-in-list", "[ 1 $ a ]", 1),
    ("variable-in-object", "{ a : $ a }", 1),
    ("variable-in-second-object-field", "{ a : 1 a : $ a }", 1),
    ("variable-in-object-in-list", "[ { a : $ a } ]", 1),
    ("variable-in-list-in-object", "{ a : [ $ a ] }", 1),
    ("variable-in-list-in-list", "[ [ $ a ] ]", 1),
]
K_INDEX = {t[0]: i for i, t in enumerate(K_TEMPLATES)}
_FLAG_COMBOS = [(0, 0), (0, 1), (1, 0), (1, 1)]
S_REL_DEPTH = {"quick": 2, "thorough": 3}


def _k_tokens(template, filler):
    out = []
    for t in template.split():
        if t == "#":
            out.extend(filler.split())
        else:
            out.append(t)
    return tuple(TOKEN_BY_LEXEME[x] for x in out)


def _check_K(case, st):
    name, const, start, hts, hfv, template = K_TEMPLATES[K_INDEX[case["template"]]]
    combos = _FLAG_COMBOS if start == "Document" else [(0, 0)]
    for fname, filler, _has_var in K_FILLERS:
        toks = _k_tokens(template, filler)
        for ts, fv in combos:
            R = RG.recogniser(start, ts, fv)
            ok, _ = R.run([TOK_CLASSES[t] for t in toks])
            found, base = _test_sequence(start, ts, fv, toks, ok, _p_variants(start, ts, fv, True), st)
            st.n("K/inputs")
            if ok and base[0] == "ok":
                st.nt((start, ts, fv, base[2]))
                if fname == "variable-in-object-in-list" and len(st.samples) < st.MAX_SAMPLES:
                    st.sample({"layer": "K", "template": name, "filler": fname, "entry": ENTRY_OF_START[start], "allow_type_system": ts,
                               "experimental_fragment_variables": fv, "text": base[2], "verdict": "accepted by both"})
            else:
                st.n("nontrivial_rejects")
            for cls, d in found.items():
                yield cls, {"layer": "P", "start": start, "ts": ts, "fv": fv, "toks": [TOKENS[i][0] for i in toks]}, "[K %s / %s] %s" % (name, fname, d)


def _s_seeds():
    """distinct proper prefixes (>= 2 tokens) of the minimal instances, under the instance's home flags; simplest first"""
    seen = set()
    out = []
    for name, const, start, hts, hfv, template in K_TEMPLATES:
        if start != "Document":
            continue
        for filler in ("1", "$ a"):
            toks = _k_tokens(template, filler)
            for n in range(2, len(toks)):
                key = (hts, hfv, toks[:n])
                if key not in seen:
                    seen.add(key)
                    out.append(key)
    out.sort(key=lambda k: (len(k[2]), k))
    return out


def _check_S(case, st):
    ts, fv = case["ts"], case["fv"]
    prefix = tuple(TOKEN_BY_LEXEME[x] for x in case["prefix"])
    s = _PSearch("Document", ts, fv, 0, st)
    chart = s.chart_of(prefix)
    st.n("S/seeds")
    s.dfs(prefix, chart, len(prefix) + case["rel_depth"] - 1, 0)
    if s.cut:
        st.n("S/cut")
    return s.out


def _k_selftest():
    """the reference grammar says what the Const parameter says, on every instance"""
    for name, const, start, hts, hfv, template in K_TEMPLATES:
        R = RG.recogniser(start, hts, hfv)
        for fname, filler, has_var in K_FILLERS:
            toks = _k_tokens(template, filler)
            ok, _ = R.run([TOK_CLASSES[t] for t in toks])
            want = not (const and has_var)
            assert ok == want, ("reference grammar: %s with %s should be %s" % (name, fname, "accepted" if want else "rejected"))
            if start == "Document" and (hts, hfv) != (1, 1):
                # more permissive flags never change the verdict of an instance that is already at home
                ok2, _ = RG.recogniser(start, 1, 1).run([TOK_CLASSES[t] for t in toks])
                assert ok2 == want, (name, fname, "ts+fv")


# ------------------------------------------------------------------------------------------
# probe


def _probe_text(shape, n):
    if shape == "selection":
        return "parse", "{a" * n + "}" * n
    if shape == "list-value":
        return "parse_value", "[" * n + "]" * n
    if shape == "object-value":
        return "parse_value", "{a:" * n + "1" + "}" * n
    if shape == "list-type":
        return "parse_type", "[" * n + "T" + "]" * n
    if shape == "arg-list":
        return "parse", "{a(x:" + "[" * n + "]" * n + ")}"
    raise ValueError(shape)


def _check_probe(case, st):
    entry, text = _probe_text(case["shape"], case["depth"])
    old = sys.getrecursionlimit()
    sys.setrecursionlimit(3000)
    try:
        status, e = _run(entry, text, 0, 0, 0)
    finally:
        sys.setrecursionlimit(old)
    outcome = status if e is None else "%s:%s" % (status, type(e).__name__)
    if st is not None:
        st.n("evaluations")
        st.note("probe %s depth %d (recursion limit 3000): %s" % (case["shape"], case["depth"], outcome))
        st.outcome(("probe", case["shape"], outcome))
    out = []
    if status == "exc":
        out.append(
            (
                "deep-nesting:%s" % type(e).__name__,
                "%s on %s nested %d deep raised %s instead of succeeding or raising GraphQLSyntaxError" % (entry, case["shape"], case["depth"], type(e).__name__),
            )
        )
    elif status == "syn":
        for cls, d in _error_checks(e, len(text)):
            out.append((cls, d))
    elif status == "hang":
        out.append(("hang/parser", "probe"))
    return out


# ------------------------------------------------------------------------------------------
# contract


def selftest():
    RG.selftest()
    _k_selftest()
    # token alphabet and reference lexer agree on what each lexeme is
    for lx, kind, value in TOKENS:
        toks, err = RL.lex(lx)
        assert err is None and len(toks) == 1 and toks[0][0] == kind and toks[0][3] == value, lx
    # every layout of every pair of tokens lexes to the same two tokens
    for i in range(NTOK):
        for j in range(NTOK):
            for lay in range(4):
                text = _layout([TOKENS[i][0], TOKENS[j][0]], [TOKENS[i][1], TOKENS[j][1]], lay)
                toks, err = RL.lex(text)
                assert err is None and [(t[0], t[3]) for t in toks] == [TOKENS[i][1:], TOKENS[j][1:]], (text, toks, err)


def _tag(case):
    if case["layer"] == "L":
        return "L/%s/len=%d" % (case["alphabet"], case["len"])
    if case["layer"] == "P":
        name = "%s%s%s" % (case["start"], "+ts" if case["ts"] else "", "+fv" if case["fv"] else "")
        return "P/%s/%s" % (name, "root" if case["kind"] == "root" else "tier" + case["tier"])
    if case["layer"] in ("K", "S"):
        return case["layer"]
    return "probe"


def _l_cases(tier, stage):
    for alpha, n, frames, mode, stg in L_PLAN[tier]:
        if stg != stage:
            continue
        size = len(ALPHABETS[alpha])
        if n <= 2:
            yield {"layer": "L", "alphabet": alpha, "len": n, "pre": [], "frames": list(frames), "mode": mode}
        else:
            for i in range(size):
                for j in range(size):
                    yield {"layer": "L", "alphabet": alpha, "len": n, "pre": [i, j], "frames": list(frames), "mode": mode}


def _p_cases(tier, tierno):
    plan = P_PLAN[tier]
    shard = plan["shard"]
    name = "AB"[tierno]
    for start, ts, fv in P_CONFIGS:
        d = plan["depth"][(start, ts, fv)]
        if tierno == 1 and d[1] == d[0]:
            continue
        if d[tierno] < shard:
            continue
        for prefix in itertools.product(range(NTOK), repeat=shard):
            yield {
                "layer": "P", "kind": "dfs", "tier": name, "start": start, "ts": ts, "fv": fv, "prefix": list(prefix),
                "depth": d[tierno], "fullx": plan["fullx"],
                # tier B re-walks tier A's nodes silently and reports only the deeper inputs
                "report_min_len": (shard + 1) if tierno == 0 else d[0] + 2,
            }


def cases(tier):
    plan = P_PLAN[tier]
    # simplest first: short strings, the roots of the prefix searches, the named probe ...
    for c in _l_cases(tier, 0):
        yield c
    for start, ts, fv in P_CONFIGS:
        yield {"layer": "P", "kind": "root", "start": start, "ts": ts, "fv": fv, "shard": plan["shard"], "fullx": plan["fullx"]}
    for shape in PROBE_SHAPES:
        yield {"layer": "probe", "shape": shape, "depth": PROBE_DEPTH}
    # ... every Const / non-Const place of the grammar, and the contexts seeded from their minimal instances ...
    for t in K_TEMPLATES:
        yield {"layer": "K", "template": t[0]}
    for ts, fv, toks in _s_seeds():
        yield {"layer": "S", "ts": ts, "fv": fv, "prefix": [TOKENS[i][0] for i in toks], "rel_depth": S_REL_DEPTH[tier]}
    # ... the prefix search to its first depth, the longer strings, the prefix search one token deeper
    for c in _p_cases(tier, 0):
        yield c
    for c in _l_cases(tier, 1):
        yield c
    for c in _p_cases(tier, 1):
        yield c


def _planned(tier):
    out = {}
    for c in cases(tier):
        t = _tag(c)
        out[t] = out.get(t, 0) + 1
    return out


BOUNDS = {"quick": _bounds("quick"), "thorough": _bounds("thorough")}


def check_case(case, st):
    layer = case["layer"]
    st.n("done:" + _tag(case))
    if layer == "L":
        out = list(_check_L(case, st))
    elif layer == "P":
        out = list(_check_P(case, st))
    elif layer == "K":
        out = list(_check_K(case, st))
    elif layer == "S":
        out = list(_check_S(case, st))
    else:
        w = {"layer": "probe", "shape": case["shape"], "depth": case["depth"]}
        out = [(cls, w, d) for cls, d in _check_probe(case, st)]
    return out


def replay(witness):
    layer = witness["layer"]
    if layer == "L":
        fi = FRAME_INDEX[witness["frame"]]
        found = _eval_text(_frame_text(fi, witness["s"]), FRAMES[fi][3], ALL_CONFIGS, None)
        return sorted(found.items())
    if layer == "P":
        start, ts, fv = witness["start"], witness["ts"], witness["fv"]
        toks = tuple(TOKEN_BY_LEXEME[x] for x in witness["toks"])
        R = RG.recogniser(start, ts, fv)
        ok, _ = R.run([TOK_CLASSES[t] for t in toks])
        found, _ = _test_sequence(start, ts, fv, toks, ok, _p_variants(start, ts, fv, True), None)
        return sorted(found.items())
    if layer == "probe":
        return _check_probe(witness, None)
    raise ValueError(layer)
