# -*- coding: utf-8 -*-
"""
C07 -- resolvers only receive arguments that conform to the declared input types.

Engine E3.  Every input type expression  base x wrapper shape  (base in Int, Float, String, Boolean,
ID, enum E with internal values != names, custom scalar Hex, recursive input object In with defaults
and python names; wrappers up to depth 3) is combined with every value of the base's alphabet placed
at every position of the type's list structure (bare, nested 1..k+1 deep, next to a null, next to a
good sibling), and sent to a capturing resolver over every input route:

  literal routes    f(x: LIT) | $v: T = LIT (value omitted) | @d(x: LIT) | l(x: [LIT]) | b(x: {v: LIT})
  variable routes   $v: T -> f(x: $v) | $v: T = GOOD with a payload | @d(x: $v) | l(x: [$v]) | b(x: {v: $v})
  direct calls      coerce_value, value_from_ast, coerce_variable_values + coerce_argument_values

plus the same field selected at several places of one operation with different arguments (aliases,
same response key under different parents, list items, merged duplicates, different depths: all
ordered pairs -- thorough: triples -- of argument assignments), one field node executed against the
members of an interface / a union that declare the field with different defaults, an extra defaulted
argument and different python names (both orders of runtime types), nullable variables at non-null
positions (allowed when a default exists), a lone object literal containing a variable in a list
position (depth 1 and 2, lone / bracketed / all-variable spellings), presence enumerations
(provided / omitted / explicit null / through a provided, null, omitted or defaulted variable) for every argument of a 3-argument field (7^3), for the fields of an input object
literal (7^3), for every type with and without argument default, @skip/@include conditions, and
defaults declared in SDL.  The oracle is mc/ref/coerce.py (spec transliteration) + conforms().
"""
import json

from mc.gen import values as V
from mc.ref import coerce as R

READY = True
LEVEL = "exploration"
TECHNIQUE = "bounded-exhaustive enumeration of input types x value alphabets x placements x input routes against a reference transliteration of the spec's input coercion"
LEVEL_TEXT = (
    "Every (input type expression, value, placement, route) inside the bounds is enumerated (no sampling) and run "
    "through the real graphql_blocking with a capturing resolver and through the real coercion functions; what the "
    "resolver received is compared with an independent reference coercion and an independent conformance predicate. "
    "Exhaustive inside the bound; small-scope argument beyond (coercion is structurally recursive on the type)."
)
LEVEL_NOTE = (
    "Trusts mc/ref/coerce.py (self-tested on the tables of spec sections 3.10/3.11 and on boundary cases) and the "
    "parser/validator only in so far as a rejection by them counts as 'rejected before any resolver runs'. Where the "
    "specification leaves the answer open (integral float for Int, int for ID, wrapping of list items) every "
    "admissible answer is accepted."
)
DESIGN_REF = "DESIGN.md section 6, C07"
RULE = (
    "cases = shapes (all strings over {non-null, list} up to the depth bound, no double non-null) x 8 base types x "
    "placements (leaf nested 0..k+1 lists deep, beside a null, beside a valid sibling) x the base's value alphabet "
    "(natural values, 32-bit boundaries, integral/non-integral floats, numeric strings, booleans, null, one value of every "
    "other JSON kind; for the input object: 3^k presence combinations, every field x its alphabet, unknown fields, wrong kinds), "
    "plus literal-only leaves, one field node served by two field definitions (interface / union members with different defaults, extra defaulted argument, different python names) x 4 list fields x 4 selection styles x 6 argument spellings, lone object literals containing a variable (provided / null / unset with default / unset) in list positions of depth 1 and 2 for every type x 5 spellings + the all-variable spelling, ordered pairs (thorough: triples) of argument assignments (literal / variable / unset variable / null / default per argument) for one field selected at several places of one operation (5 placements), nullable variables (null / unset / value) at every non-null-typed position that has a default, 7^3 argument-presence and 7^3 object-literal-presence combinations, per-type argument "
    "presence with/without default, @skip/@include conditions, SDL-declared defaults; evaluation = one run of the "
    "implementation on one route compared with the reference; non-trivial = distinct (type, value, route-independent) "
    "case for which the reference accepts on some route (so the resolver must run and its kwargs are compared) or "
    "rejects a non-null value (so the implementation has to find the reason inside the value)"
)
ASSUMPTIONS = [
    "a rejection by parsing or validation counts as 'rejected before any resolver runs'",
    "custom scalar Hex and enum E are defined in mc/gen/values.py; the reference calls the same hex_parse the schema is given",
    "value_from_ast called directly on a literal that validation would reject is only required not to crash with an undocumented exception; laxity there is counted (direct_literal_lax) not reported, because execute() documents that it assumes a validated document",
    "where the specification leaves a choice (1.0 for Int, int kept for ID, single-item wrapping inside an explicit list) every admissible answer is accepted",
]
BOUNDS = {
    "quick": {"multi_occurrence": "15^2 ordered pairs x 5 placements", "wrapper_depth": 2, "in_presence_fields": 3, "arg_presence": "7^3", "object_literal_presence": "7^3", "sdl_default_depth": 1},
    "thorough": {"multi_occurrence": "22^2 ordered pairs x 5 placements + 8^3 triples x 2 placements", "wrapper_depth": 3, "in_presence_fields": 5, "arg_presence": "7^3", "object_literal_presence": "7^3", "sdl_default_depth": 2},
}
TIME_CAP = {"quick": 300, "thorough": 1500}

ALL_SHAPES = V.shapes(3)
TYPES = [(b, s) for s in ALL_SHAPES for b in V.BASES]
TINDEX = {bs: i for i, bs in enumerate(TYPES)}

SECONDARY_ROUTES = ("dir-literal", "dir-variable", "var-default-overridden")
LIT_ROUTES = ("arg-literal", "var-default", "dir-literal", "list-literal", "obj-literal")
VAR_ROUTES = ("arg-variable", "var-default-overridden", "dir-variable", "list-variable", "obj-variable")


def _good_value(base, shape):
    v = V.GOOD[base]
    for _ in range(V.list_depth(shape)):
        v = [v]
    return v


def _model():
    global _MODEL
    if _MODEL is None:
        extra = {}
        for i, (b, s) in enumerate(TYPES):
            extra["Box%d" % i] = {
                "kind": "input",
                "fields": [{"name": "v", "type": V.mk_type(b, s), "has_default": False, "default": None, "python_name": "py_v"}],
            }
        _MODEL = V.model(extra)
    return _MODEL


_MODEL = None


def selftest():
    R.selftest()
    m = _model()
    # generator sanity: natural trees of valid values coerce to the same thing as the values
    for (b, s) in TYPES:
        t = V.mk_type(b, s)
        g = _good_value(b, s)
        a = R.coerce_variable(t, g, m)
        c = R.coerce_literal(t, V.natural_tree(g, t, m), {}, m)
        assert a is not R.REJECT and R.same(a, c), (b, s, a, c)
        assert R.conforms(a, t, m), (b, s, a)
    assert V.render_tree(V.natural_tree({"b": "x", "e": "A", "c": [1, None]}, "In", m)) == '{b: "x", e: A, c: [1, null]}'
    assert len(ALL_SHAPES) == 11 and len(V.shapes(2)) == 6


# ------------------------------------------------------------------------------------------
# cases


def cases(tier):
    depth = BOUNDS[tier]["wrapper_depth"]
    for s in V.shapes(depth):
        for b in V.BASES:
            for ctx in V.contexts(s, tier, b):
                over = ctx == ["nest", V.list_depth(s) + 1]
                for li, (fb, fk, leaf) in enumerate(V.leaves(b, tier)):
                    if tier == "quick" and not _quick_keeps(b, s, ctx, over, li, fb, fk):
                        continue
                    # one list level more than the type has: what stands at the base position is a list
                    focus = [b, "list"] if over else [fb, fk]
                    c = {"k": "val", "base": b, "shape": s, "ctx": ctx, "leaf": leaf, "focus": focus}
                    if tier == "quick" and not (ctx[0] == "nest" and ctx[1] in (0, V.list_depth(s))):
                        # away from the bare and the natural placement the three secondary routes
                        # (directive argument x2, overridden variable default) are left to thorough
                        c["routes"] = "core"
                    yield c
            for fk, tree in V.LITERAL_ONLY[b]:
                for j in range(0, V.list_depth(s) + 1):
                    yield {"k": "lit", "base": b, "shape": s, "nest": j, "tree": tree, "focus": [b, fk]}
            yield {"k": "argpres", "base": b, "shape": s}
            if s.endswith("N"):
                yield {"k": "nnvar", "base": b, "shape": s}
            yield {"k": "wrapvar", "base": b, "shape": s}
    for combo in _product(ARG_STATES, 3):
        yield {"k": "args", "states": list(combo)}
    for combo in _product(ARG_STATES, 3):
        yield {"k": "objlit", "states": list(combo)}
    for d in ("skip", "include"):
        for v in V.ALPHABET["Boolean"]:
            for how in ("variable", "literal"):
                yield {"k": "cond", "dir": d, "value": v, "how": how}
    assigns = MULTI_QUICK if tier == "quick" else list(range(len(MULTI_ASSIGN)))
    for shape in MULTI_SHAPES:
        for a1 in assigns:
            for a2 in assigns:
                yield {"k": "multi", "shape": shape, "assign": [a1, a2]}
    if tier == "thorough":
        for shape in ("aliases", "parents-same-key"):
            for a1 in MULTI_TRIPLE:
                for a2 in MULTI_TRIPLE:
                    for a3 in MULTI_TRIPLE:
                        yield {"k": "multi", "shape": shape, "assign": [a1, a2, a3]}
    for f in ("shapes", "shapesR", "ushapes", "ushapesR"):
        for style in ABS_STYLES:
            for args in ABS_ARGS:
                yield {"k": "absdef", "field": f, "style": style, "args": args}
    sd = BOUNDS[tier]["sdl_default_depth"]
    for s in V.shapes(sd):
        for b in V.BASES:
            if b == "Hex":
                continue
            for fb, fk, leaf in V.leaves(b, "quick"):
                for where in ("argument", "input-field"):
                    yield {"k": "sdl", "base": b, "shape": s, "leaf": leaf, "where": where, "focus": [fb, fk]}


def _quick_keeps(b, s, ctx, over, li, fb, fk):
    """
    quick tier: every class of case stays (every shape x placement x leaf kind x route), but two
    products are thinned: (1) one list level too many -- whatever the leaf is, a *list* stands at the
    base position, so a handful of leaves per base is kept; (2) for the input object, the leaves that
    vary one *field* over that field's scalar alphabet (already covered under the scalar bases) are
    kept bare and at the natural nesting only, not beside siblings / at intermediate nestings.
    """
    k = V.list_depth(s)
    if over:
        if b == "In":
            return li == 0 or (fb == "In" and fk != "presence")
        return li < 2 or fk in ("null", "object", "bool")
    if b == "In" and (fb != "In" or fk in ("int32-edge",)):
        return ctx[0] == "nest" and ctx[1] in (0, k)
    if ctx[0] != "nest":
        return ctx[1] == k  # beside a null / a good sibling: innermost list only
    return True


def _product(xs, n):
    import itertools

    return itertools.product(xs, repeat=n)


ARG_STATES = ("omit", "lit-null", "lit-value", "var-value", "var-null", "var-unset", "var-unset-default")

# ------------------------------------------------------------------------------------------
# the schema under test (code-built: internal enum values, python names, custom scalar)

_S = None
CAPTURE = []


def _resolver(root, ctx, info, **kwargs):
    CAPTURE.append(("args", info.field_definition.name, kwargs))
    return True


def _path_resolver(root, ctx, info, **kwargs):
    CAPTURE.append(("at", ".".join(str(p) for p in info.path), kwargs))
    return True


def _dir_resolver(root, ctx, info, **kwargs):
    for d in info.nodes[0].directives:
        name = d.name.value
        if name in ("skip", "include"):
            continue
        args = info.get_directive_arguments(name)
        CAPTURE.append(("args", name, args))
    return True


def _build():
    from py_gql.lang import ast as _ast
    from py_gql.schema import (
        ID,
        Argument,
        Boolean,
        Directive,
        EnumType,
        Field,
        Float,
        InputField,
        InputObjectType,
        Int,
        ListType,
        NonNullType,
        ObjectType,
        ScalarType,
        Schema,
        String,
    )
    from py_gql.schema.scalars import _typed_coerce

    m = _model()
    named = {"Int": Int, "Float": Float, "String": String, "Boolean": Boolean, "ID": ID}
    named["E"] = EnumType("E", [(n, v) for n, v in V.ENUM_VALUES])
    named["Hex"] = ScalarType(
        "Hex",
        serialize=lambda v: "%x" % v,
        parse=V.hex_parse,
        parse_literal=_typed_coerce(V.hex_parse, _ast.StringValue),
    )

    def gql(t):
        if R.is_nn(t):
            return NonNullType(gql(t[1]))
        if R.is_list(t):
            return ListType(gql(t[1]))
        return named[t]

    def fields_of(name):
        def mk():
            out = []
            for f in m[name]["fields"]:
                kw = {"python_name": f["python_name"]}
                if f["has_default"]:
                    kw["default_value"] = f["default"]
                out.append(InputField(f["name"], gql(f["type"]), **kw))
            return out

        return mk

    named["In"] = InputObjectType("In", fields_of("In"))
    fields = []
    directives = []
    argdefs = {}

    def arg(name, t, python_name=None, **kw):
        d = {"name": name, "type": t, "has_default": "default" in kw, "default": kw.get("default"), "python_name": python_name or name}
        a = Argument(name, gql(t), python_name=python_name, **({"default_value": kw["default"]} if "default" in kw else {}))
        return d, a

    def field(name, args, resolver=_resolver):
        argdefs[name] = [d for d, _ in args]
        fields.append(Field(name, Boolean, [a for _, a in args], resolver=resolver))

    for i, (b, s) in enumerate(TYPES):
        t = V.mk_type(b, s)
        named["Box%d" % i] = InputObjectType("Box%d" % i, fields_of("Box%d" % i))
        field("f%d" % i, [arg("x", t)])
        field("l%d" % i, [arg("x", ["list", t])])
        field("b%d" % i, [arg("x", "Box%d" % i, "py_x")])
        field("lb%d" % i, [arg("x", ["list", "Box%d" % i])])
        field("llb%d" % i, [arg("x", ["list", ["list", ["nn", "Box%d" % i]]])])
        dflt = R.coerce_variable(t, _good_value(b, s), m)
        field("fd%d" % i, [arg("x", t, default=dflt)])
        d, a = arg("x", t)
        argdefs["d%d" % i] = [d]
        directives.append(Directive("d%d" % i, ["FIELD"], [a]))
    field("m", [arg("p", "Int", "py_p"), arg("q", "Int", default=7), arg("r", ["nn", "Int"], "py_r")])
    field("cond", [])
    fields.append(Field("g", Boolean, [], resolver=_dir_resolver))
    # the same field at several places of one operation (multi-occurrence family)
    size_args = [
        arg("u", "E"),
        arg("s", "Int", "py_s", default=1),
        arg("n", ["nn", "Int"], default=3),
        arg("i", "In", "py_i"),
    ]
    argdefs["size"] = [d for d, _ in size_args]
    box = ObjectType(
        "Box",
        lambda: [
            Field("size", Boolean, [a for _, a in size_args], resolver=_path_resolver),
            Field("inner", box, resolver=lambda *a, **k: {}),
        ],
    )
    fields.append(Field("box", box, [Argument("id", Int)], resolver=lambda *a, **k: {}))
    fields.append(Field("boxes", ListType(box), resolver=lambda *a, **k: [{}, {}]))
    # one field NODE serving several field DEFINITIONS: members of an interface / a union declare the
    # same field with different defaults, an extra defaulted argument and different python names
    from py_gql.schema import InterfaceType, UnionType

    shape_args = [arg("unit", "E", default=10)]
    circle_args = [arg("unit", "E", "py_unit", default=10)]
    square_args = [arg("unit", "E", "u2", default="bee"), arg("scale", "Int", default=2)]
    argdefs["Circle.size"] = [d for d, _ in circle_args]
    argdefs["Square.size"] = [d for d, _ in square_args]
    shape = InterfaceType("Shape", [Field("size", Boolean, [a for _, a in shape_args])])
    circle = ObjectType("Circle", [Field("size", Boolean, [a for _, a in circle_args], resolver=_path_resolver)], interfaces=[shape])
    square = ObjectType("Square", [Field("size", Boolean, [a for _, a in square_args], resolver=_path_resolver)], interfaces=[shape])
    anyshape = UnionType("AnyShape", [circle, square])
    cs = [{"__typename__": "Circle"}, {"__typename__": "Square"}]
    fields.append(Field("shapes", ListType(shape), resolver=lambda *a, **k: list(cs)))
    fields.append(Field("shapesR", ListType(shape), resolver=lambda *a, **k: list(reversed(cs))))
    fields.append(Field("ushapes", ListType(anyshape), resolver=lambda *a, **k: list(cs)))
    fields.append(Field("ushapesR", ListType(anyshape), resolver=lambda *a, **k: list(reversed(cs))))
    schema = Schema(ObjectType("Query", fields), directives=directives, types=[circle, square])
    schema.validate()
    return schema, argdefs


def _schema():
    global _S
    if _S is None:
        _S = _build()
    return _S


# ------------------------------------------------------------------------------------------
# running the implementation


class Impl(object):
    """outcome of one implementation run: kind in accept | reject | silent | crash"""

    def __init__(self, kind, value=None, info=""):
        self.kind = kind
        self.value = value
        self.info = info

    def __repr__(self):
        if self.kind == "accept":
            return "accept(%r)" % (self.value,)
        return "%s(%s)" % (self.kind, self.info)


def run_e2e(text, payload, target):
    """Run graphql_blocking; what did the resolver of `target` (field or directive name) receive?"""
    from py_gql import graphql_blocking

    schema, _ = _schema()
    del CAPTURE[:]
    try:
        res = graphql_blocking(schema, text, variables=payload)
        resp = res.response()
    except Exception as e:  # noqa
        return Impl("crash", None, "%s: %s" % (type(e).__name__, str(e)[:200])), type(e).__name__
    got = [c for c in CAPTURE if c[1] == target]
    errors = resp.get("errors") or []
    if got:
        stage = "resolver-ran" + ("+errors" if errors else "")
        return Impl("accept", got[0][2], stage), stage
    if errors:
        if "data" not in resp:
            stage = "rejected:validation"
        elif resp["data"] is None:
            stage = "rejected:variables"
        else:
            stage = "rejected:field"
        return Impl("reject", None, "%s: %s" % (stage, str(errors[0].get("message"))[:160])), stage
    return Impl("silent", None, "resolver not called and no error: %r" % (resp,)), "silent"


def _call(fn, ok_excs):
    try:
        return Impl("accept", fn())
    except ok_excs as e:
        return Impl("reject", None, "%s: %s" % (type(e).__name__, str(e)[:160]))
    except Exception as e:  # noqa
        return Impl("crash", None, "%s: %s" % (type(e).__name__, str(e)[:200]))


def run_direct_doc(text, payload, field_name):
    """coerce_variable_values + coerce_argument_values on the parsed (unvalidated) document."""
    from py_gql.exc import CoercionError, InvalidValue, VariablesCoercionError
    from py_gql.lang import parse
    from py_gql.utilities import coerce_argument_values, coerce_variable_values

    schema, _ = _schema()
    doc = parse(text)
    op = doc.definitions[0]
    node = op.selection_set.selections[0]
    fdef = schema.query_type.field_map[field_name]

    def go():
        cv = coerce_variable_values(schema, op, payload)
        return coerce_argument_values(fdef, node, cv)

    return _call(go, (VariablesCoercionError, CoercionError, InvalidValue))


# ------------------------------------------------------------------------------------------
# comparing with the reference


def admissible(fn):
    """all answers the reference admits, over the policies; first = default policy"""
    out = []
    for pol in R.POLICIES:
        a = fn(pol)
        if not any(R.same(a, b) for b in out):
            out.append(a)
    return out


def diff(exp, got, t, m):
    """first difference between expected and received value, with the declared type at that point."""
    nt = R.named(t) if t is not None else "?"
    if isinstance(exp, dict) and isinstance(got, dict):
        for k in exp:
            if k not in got:
                return "missing-key@%s" % nt
        for k in got:
            if k not in exp:
                return "extra-key@%s" % nt
        ft = {}
        d = m.get(nt)
        if d and d["kind"] == "input":
            ft = {f["python_name"]: f["type"] for f in d["fields"]}
        for k in exp:
            if not R.same(exp[k], got[k]):
                return diff(exp[k], got[k], ft.get(k), m)
        return "same"
    if isinstance(exp, list) and isinstance(got, list):
        if len(exp) != len(got):
            return "list-length@%s" % nt
        it = None
        if t is not None:
            tt = R.nullable(t)
            it = tt[1] if R.is_list(tt) else None
        for a, b in zip(exp, got):
            if not R.same(a, b):
                return diff(a, b, it, m)
        return "same"
    if isinstance(exp, list) != isinstance(got, list):
        return ("not-wrapped@%s" if isinstance(exp, list) else "wrapped@%s") % nt
    if type(exp) is not type(got):
        return "type:%s-for-%s@%s" % (type(got).__name__, type(exp).__name__, nt)
    return "value@%s" % nt


def judge(adm, impl, argdefs_or_type, m, kwargs_mode=True):
    """-> None | (outcome, detail).  adm: admissible reference answers; impl: Impl."""
    if impl.kind == "crash":
        return "crash:" + impl.info.split(":")[0], impl.info
    if impl.kind == "silent":
        if all(a is R.REJECT for a in adm):
            return "no-error-reported", impl.info
        return "rejected-valid:silent", impl.info
    if impl.kind == "reject":
        if any(a is R.REJECT for a in adm):
            return None
        return "rejected-valid", impl.info
    # accept
    for a in adm:
        if a is not R.REJECT and R.same(a, impl.value):
            ok = R.conforms_kwargs(impl.value, argdefs_or_type, m) if kwargs_mode else R.conforms(impl.value, argdefs_or_type, m)
            if not ok:
                raise AssertionError("reference value does not satisfy conforms(): %r %r" % (impl.value, argdefs_or_type))
            return None
    if all(a is R.REJECT for a in adm):
        return "accepted-invalid", "received %r" % (impl.value,)
    exp = [a for a in adm if a is not R.REJECT][0]
    if kwargs_mode:
        ok = R.conforms_kwargs(impl.value, argdefs_or_type, m)
        d = "same"
        if set(exp) != set(impl.value):
            d = "kwargs-keys"
        else:
            for a in argdefs_or_type:
                k = a["python_name"]
                if k in exp and not R.same(exp[k], impl.value[k]):
                    d = diff(exp[k], impl.value[k], a["type"], m)
                    break
    else:
        ok = R.conforms(impl.value, argdefs_or_type, m)
        d = diff(exp, impl.value, argdefs_or_type, m)
    return "wrong-value:%s/conforms=%s" % (d, ok), "expected %r received %r" % (exp, impl.value)


def _cls(outcome, focus, route):
    if outcome.startswith("wrong-value"):
        return "%s/route=%s" % (outcome, route)
    return "%s/base=%s/value=%s/route=%s" % (outcome, focus[0], focus[1], route)


# ------------------------------------------------------------------------------------------
# value cases


def _vardef(t, default=None):
    return "$v: %s%s" % (R.type_text(t), (" = " + default) if default is not None else "")


def _expect(vardefs, payload, argdefs, given, m):
    def fn(pol):
        cv = R.coerce_variable_values(vardefs, payload, m, pol)
        if cv is R.REJECT:
            return R.REJECT
        return R.coerce_argument_values(argdefs, given, cv, m, pol)

    return admissible(fn)


def eval_val(case, st=None):
    """a (type, value) case over every route -> [(class, detail)]"""
    from py_gql.exc import CoercionError, InvalidValue
    from py_gql.lang import parse_value
    from py_gql.utilities import coerce_value, value_from_ast

    m = _model()
    schema, argdefs = _schema()
    b, s = case["base"], case["shape"]
    i = TINDEX[(b, s)]
    t = V.mk_type(b, s)
    tt = R.type_text(t)
    focus = case["focus"]
    if case["k"] == "val":
        value = V.build_value(case["ctx"], case["leaf"], V.GOOD[b])
        tree = V.natural_tree(value, t, m)
        has_json = True
    else:
        tree = case["tree"]
        for _ in range(case["nest"]):
            tree = ["list", [tree]]
        value = None
        has_json = False
    renderable = V.tree_is_renderable(tree)
    lit = V.render_tree(tree) if renderable else None
    if case["k"] == "lit" and focus[1] == "block-string":
        lit = lit.replace('"blk"', '"""blk"""')
    out = []
    results = {}
    any_accept = False

    def note(route, group, adm, impl, ad, kwargs_mode=True, stage=None):
        nonlocal any_accept
        if st is not None:
            st.n("evaluations")
            st.n("route:" + route)
            st.outcome((route, impl.kind, stage))
        if any(a is not R.REJECT for a in adm):
            any_accept = True
        v = judge(adm, impl, ad, m, kwargs_mode)
        results[route] = (adm, impl, v)
        if v is not None:
            out.append((_cls(v[0], focus, group), "route %s type %s value %s: %s" % (route, tt, lit if not has_json else json.dumps(value), v[1])))

    gql_t = _gql_type(t)
    # -- direct calls
    if has_json:
        adm = admissible(lambda pol: R.coerce_variable(t, value, m, pol))
        impl = _call(lambda: coerce_value(value, gql_t), (CoercionError, InvalidValue))
        note("coerce_value", "variable", adm, impl, t, kwargs_mode=False)
    if renderable:
        adm = admissible(lambda pol: R.coerce_literal(t, tree, {}, m, pol))
        node = parse_value(lit)
        impl = _call(lambda: value_from_ast(node, gql_t, {}), (InvalidValue,))
        if impl.kind == "accept" and all(a is R.REJECT for a in adm):
            # unvalidated literal: counted, not reported (see ASSUMPTIONS)
            if st is not None:
                st.n("evaluations")
                st.n("direct_literal_lax")
                st.note("value_from_ast on an unvalidated literal accepted what the reference rejects: %s/%s" % tuple(focus))
        else:
            note("value_from_ast", "literal", adm, impl, t, kwargs_mode=False)
    # -- requests
    reqs = _requests(b, s, tree if renderable else None, lit, value, has_json)
    if case.get("routes") == "core":
        reqs = [r for r in reqs if r[0] not in SECONDARY_ROUTES]
    for route, group, text, payload, vardefs, target, given in reqs:
        ad = argdefs[target]
        adm = _expect(vardefs, payload, ad, given, m)
        impl, stage = run_e2e(text, payload, target)
        if impl.kind == "reject" and not any(a is R.REJECT for a in adm) and _route_unusable(b, s, route):
            # the same route rejects the plainest valid value of this type as well: the value is not the cause
            if st is not None:
                st.n("evaluations")
                st.n("route:" + route)
                st.outcome((route, impl.kind, stage))
            results[route] = (adm, impl, ("route-unusable", impl.info))
            any_accept = True
            out.append(("route-unusable/route=%s/type=%s" % (route, _outer(t)), "route %s type %s rejects every value, e.g. %s: %s" % (route, tt, text, impl.info)))
            continue
        note(route, group, adm, impl, ad, stage=stage)
        if route in ("arg-literal", "arg-variable"):
            dimpl = run_direct_doc(text, payload, target)
            if route == "arg-literal" and dimpl.kind == "accept" and all(a is R.REJECT for a in adm):
                if st is not None:
                    st.n("evaluations")
                    st.n("direct_literal_lax")
            else:
                note("direct:" + route, group, adm, dimpl, ad)
    # -- (c) literal route and variable route agree (only reported when neither broke (a)/(b))
    if has_json and renderable:
        for lr, vr in zip(LIT_ROUTES, VAR_ROUTES):
            if lr == "var-default" or lr not in results or vr not in results:
                continue
            la, li, lv = results[lr]
            va, vi, vv = results[vr]
            if lv is None and vv is None and any(R.same(x, y) for x in la for y in va):
                # the reference says the two routes can agree: then they must
                agree = (li.kind == vi.kind) and (li.kind != "accept" or R.same(li.value, vi.value))
                strict_equal = len(la) == 1 and len(va) == 1
                if st is not None:
                    st.n("route_pairs_compared")
                if not agree and strict_equal:
                    out.append((_cls("routes-differ", focus, lr + "|" + vr), "type %s value %s: literal %r variable %r" % (tt, json.dumps(value), li, vi)))
    if st is not None:
        nontrivial = any_accept or (has_json and value is not None) or not has_json
        if nontrivial:
            st.nt(("val", tt, lit, json.dumps(value, sort_keys=True) if has_json else None))
        st.mx("wrapper_depth", len(s))
    return _dedupe(out)


def _outer(t):
    o = []
    if R.is_nn(t):
        o.append("nn")
        t = t[1]
    o.append("list" if R.is_list(t) else "named")
    return "-".join(o)


def _requests(b, s, tree, lit, value, has_json):
    """the requests of every route for one (type, literal tree | None, json value | absent)"""
    m = _model()
    i = TINDEX[(b, s)]
    t = V.mk_type(b, s)
    reqs = []
    f, l_, bx, d = "f%d" % i, "l%d" % i, "b%d" % i, "d%d" % i
    good_tree = V.natural_tree(_good_value(b, s), t, m)
    good_lit = V.render_tree(good_tree)
    V_ = ["var", "v"]
    if tree is not None:
        reqs += [
            ("arg-literal", "literal", "{ %s(x: %s) }" % (f, lit), {}, [], f, {"x": tree}),
            ("var-default", "literal", "query(%s) { %s(x: $v) }" % (_vardef(t, lit), f), {}, [["v", t, tree]], f, {"x": V_}),
            ("dir-literal", "literal", "{ g @%s(x: %s) }" % (d, lit), {}, [], d, {"x": tree}),
            ("list-literal", "literal", "{ %s(x: [%s]) }" % (l_, lit), {}, [], l_, {"x": ["list", [tree]]}),
            ("obj-literal", "literal", "{ %s(x: {v: %s}) }" % (bx, lit), {}, [], bx, {"x": ["obj", [["v", tree]]]}),
        ]
    if has_json:
        p = {"v": value}
        reqs += [
            ("arg-variable", "variable", "query(%s) { %s(x: $v) }" % (_vardef(t), f), p, [["v", t, None]], f, {"x": V_}),
            ("var-default-overridden", "variable", "query(%s) { %s(x: $v) }" % (_vardef(t, good_lit), f), p, [["v", t, good_tree]], f, {"x": V_}),
            ("dir-variable", "variable", "query(%s) { g @%s(x: $v) }" % (_vardef(t), d), p, [["v", t, None]], d, {"x": V_}),
            ("list-variable", "variable", "query(%s) { %s(x: [$v]) }" % (_vardef(t), l_), p, [["v", t, None]], l_, {"x": ["list", [V_]]}),
            ("obj-variable", "variable", "query(%s) { %s(x: {v: $v}) }" % (_vardef(t), bx), p, [["v", t, None]], bx, {"x": ["obj", [["v", V_]]]}),
        ]
    return reqs


_UNUSABLE = {}


def _route_unusable(b, s, route):
    """control run: does this route reject the plainest valid value of the type too?"""
    key = (b, s, route)
    if key not in _UNUSABLE:
        m = _model()
        t = V.mk_type(b, s)
        g = _good_value(b, s)
        tree = V.natural_tree(g, t, m)
        res = False
        for r, group, text, payload, vardefs, target, given in _requests(b, s, tree, V.render_tree(tree), g, True):
            if r == route:
                impl, _ = run_e2e(text, payload, target)
                res = impl.kind != "accept"
        _UNUSABLE[key] = res
    return _UNUSABLE[key]


def _dedupe(out):
    """one entry per class; the detail of the first route, plus the names of the other routes."""
    first = {}
    order = []
    more = {}
    for c, d in out:
        if c in first:
            r = d.split(" ")[1] if d.startswith("route ") else None
            if r and r not in more[c]:
                more[c].append(r)
            continue
        first[c] = d
        more[c] = []
        order.append(c)
    return [(c, first[c] + ((" [same class also on: %s]" % ", ".join(more[c])) if more[c] else "")) for c in order]


_GQL_CACHE = {}


def _gql_type(t):
    from py_gql.schema import ListType, NonNullType

    schema, _ = _schema()
    key = json.dumps(t)
    if key not in _GQL_CACHE:
        if R.is_nn(t):
            g = NonNullType(_gql_type(t[1]))
        elif R.is_list(t):
            g = ListType(_gql_type(t[1]))
        else:
            g = schema.get_type(t)
        _GQL_CACHE[key] = g
    return _GQL_CACHE[key]


# ------------------------------------------------------------------------------------------
# presence cases


def _state_parts(state, name, t, m, value_tree, var_default_tree):
    """-> (argument text or None, given tree or None, vardef or None, payload entries)"""
    var = "v" + name
    if state == "omit":
        return None, None, None, {}
    if state == "lit-null":
        return "null", ["null"], None, {}
    if state == "lit-value":
        return V.render_tree(value_tree), value_tree, None, {}
    if state == "var-value":
        return "$" + var, ["var", var], [var, t, None], {var: _untree(value_tree)}
    if state == "var-null":
        return "$" + var, ["var", var], [var, t, None], {var: None}
    if state == "var-unset":
        return "$" + var, ["var", var], [var, t, None], {}
    if state == "var-unset-default":
        return "$" + var, ["var", var], [var, t, var_default_tree], {}
    raise ValueError(state)


def _untree(tree):
    k = tree[0]
    if k == "null":
        return None
    if k == "int":
        return int(tree[1])
    if k == "float":
        return float(tree[1])
    if k in ("str", "enum", "bool"):
        return tree[1]
    if k == "list":
        return [_untree(x) for x in tree[1]]
    if k == "obj":
        return {n: _untree(x) for n, x in tree[1]}
    raise ValueError(tree)


def _render_vardefs(vardefs):
    if not vardefs:
        return ""
    return "(%s)" % ", ".join(
        "$%s: %s%s" % (n, R.type_text(t), (" = " + V.render_tree(d)) if d is not None else "") for n, t, d in vardefs
    )


def eval_presence(case, st=None):
    m = _model()
    schema, argdefs = _schema()
    out = []
    k = case["k"]
    if k == "args":
        specs = [("p", "Int", ["int", "4"], ["int", "3"]), ("q", "Int", ["int", "5"], ["int", "3"]), ("r", ["nn", "Int"], ["int", "6"], ["int", "3"])]
        parts = [_state_parts(stt, n, t, m, vt, dt) for stt, (n, t, vt, dt) in zip(case["states"], specs)]
        vardefs = [p[2] for p in parts if p[2]]
        payload = {}
        for p in parts:
            payload.update(p[3])
        given = {n: p[1] for (n, _, _, _), p in zip(specs, parts) if p[1] is not None}
        argtxt = ", ".join("%s: %s" % (n, p[0]) for (n, _, _, _), p in zip(specs, parts) if p[0] is not None)
        text = "query%s { m%s }" % (_render_vardefs(vardefs), ("(%s)" % argtxt) if argtxt else "")
        target = "m"
        focus = ["Int", "presence" + ("+unset-var" if "var-unset" in case["states"] else "")]
        route = "args"
    elif k == "objlit":
        specs = [("a", "Int", ["int", "4"], ["int", "3"]), ("b", ["nn", "String"], ["str", "x"], ["str", "dflt"]), ("e", "E", ["enum", "B"], ["enum", "A"])]
        parts = [_state_parts(stt, n, t, m, vt, dt) for stt, (n, t, vt, dt) in zip(case["states"], specs)]
        vardefs = [p[2] for p in parts if p[2]]
        payload = {}
        for p in parts:
            payload.update(p[3])
        fields = [[n, p[1]] for (n, _, _, _), p in zip(specs, parts) if p[1] is not None]
        tree = ["obj", fields]
        i = TINDEX[("In", "")]
        target = "f%d" % i
        given = {"x": tree}
        text = "query%s { %s(x: %s) }" % (_render_vardefs(vardefs), target, V.render_tree(tree))
        focus = ["In", "presence" + ("+unset-var" if "var-unset" in case["states"] else "")]
        route = "object-literal"
    else:
        raise ValueError(k)
    ad = argdefs[target]
    adm = _expect(vardefs, payload, ad, given, m)
    impl, stage = run_e2e(text, payload, target)
    if st is not None:
        st.n("evaluations")
        st.n("route:" + route)
        st.outcome((route, impl.kind, stage))
        st.nt((k, text, json.dumps(payload, sort_keys=True)))
        if impl.kind == "reject" and adm[0] is not R.REJECT:
            st.n("unset_variable_inside_literal_rejected")
            st.note("a variable without value inside an object/list literal is rejected (field error) instead of counting as omitted/null: admitted, see mc/ref/coerce.py policy unset_var_rejects")
    v = judge(adm, impl, ad, m)
    if v is not None:
        out.append((_cls(v[0], focus, route), "%s variables=%s: %s" % (text, json.dumps(payload), v[1])))
    return out


def eval_argpres(case, st=None):
    """every type: argument omitted / null / through an unset or null variable, with and without default"""
    m = _model()
    schema, argdefs = _schema()
    b, s = case["base"], case["shape"]
    i = TINDEX[(b, s)]
    t = V.mk_type(b, s)
    good_tree = V.natural_tree(_good_value(b, s), t, m)
    out = []
    for fname in ("f%d" % i, "fd%d" % i):
        for state in ("omit", "lit-null", "var-null", "var-unset", "var-unset-default"):
            txt, given_tree, vardef, payload = _state_parts(state, "x", t, m, good_tree, good_tree)
            vardefs = [vardef] if vardef else []
            given = {"x": given_tree} if given_tree is not None else {}
            text = "query%s { %s%s }" % (_render_vardefs(vardefs), fname, ("(x: %s)" % txt) if txt is not None else "")
            ad = argdefs[fname]
            adm = _expect(vardefs, payload, ad, given, m)
            impl, stage = run_e2e(text, payload, fname)
            if st is not None:
                st.n("evaluations")
                st.n("route:argpres")
                st.outcome(("argpres", impl.kind, stage))
                st.nt(("argpres", text, json.dumps(payload, sort_keys=True)))
            v = judge(adm, impl, ad, m)
            if v is not None:
                focus = [b, "presence:%s%s" % (state, "+argdefault" if fname.startswith("fd") else "")]
                out.append((_cls(v[0], focus, "args"), "%s variables=%s: %s" % (text, json.dumps(payload), v[1])))
    # a variable without value as list item / object field
    vd = [["v", t, None]]
    for fname, txt, given in (
        ("l%d" % i, "[$v]", {"x": ["list", [["var", "v"]]]}),
        ("b%d" % i, "{v: $v}", {"x": ["obj", [["v", ["var", "v"]]]]}),
    ):
        text = "query%s { %s(x: %s) }" % (_render_vardefs(vd), fname, txt)
        ad = argdefs[fname]
        adm = _expect(vd, {}, ad, given, m)
        impl, stage = run_e2e(text, {}, fname)
        if st is not None:
            st.n("evaluations")
            st.n("route:argpres")
            st.outcome(("argpres-nested", impl.kind, stage))
            st.nt(("argpres", text, "{}"))
            if impl.kind == "reject" and adm[0] is not R.REJECT:
                st.n("unset_variable_inside_literal_rejected")
        v = judge(adm, impl, ad, m)
        if v is not None:
            out.append((_cls(v[0], [b, "presence:nested-var-unset"], "args"), "%s variables={}: %s" % (text, v[1])))
    return _dedupe(out)


def eval_nnvar(case, st=None):
    """
    A *nullable* variable used at a non-null position (allowed when the position or the variable has
    a default): explicit null must be refused, not handed to the resolver.
    """
    m = _model()
    schema, argdefs = _schema()
    b, s = case["base"], case["shape"]
    i = TINDEX[(b, s)]
    t = V.mk_type(b, s)
    tn = R.nullable(t)
    good = _good_value(b, s)
    good_tree = V.natural_tree(good, t, m)
    V_ = ["var", "v"]
    places = [
        ("fd%d" % i, "query(%s) { fd%d(x: $v) }", None, {"x": V_}),
        ("f%d" % i, "query(%s) { f%d(x: $v) }", good_tree, {"x": V_}),
        ("b%d" % i, "query(%s) { b%d(x: {v: $v}) }", good_tree, {"x": ["obj", [["v", V_]]]}),
        ("d%d" % i, "query(%s) { g @d%d(x: $v) }", good_tree, {"x": V_}),
    ]
    if not R.is_list(tn):
        places.append(("l%d" % i, "query(%s) { l%d(x: [$v]) }", good_tree, {"x": ["list", [V_]]}))
    out = []
    for target, tmpl, vdefault, given in places:
        for state, payload in (("null", {"v": None}), ("unset", {}), ("value", {"v": good})):
            vd = [["v", tn, vdefault]]
            text = tmpl % (_render_vardefs(vd)[1:-1], i)
            ad = argdefs[target]
            adm = _expect(vd, payload, ad, given, m)
            impl, stage = run_e2e(text, payload, target)
            if st is not None:
                st.n("evaluations")
                st.n("route:nullable-variable-at-nonnull")
                st.outcome(("nnvar", impl.kind, stage))
                st.nt(("nnvar", text, json.dumps(payload, sort_keys=True)))
            v = judge(adm, impl, ad, m)
            if v is not None:
                focus = ["any", "%s-variable" % state]
                out.append((_cls(v[0], focus, "nullable-variable-at-nonnull"), "%s variables=%s: %s" % (text, json.dumps(payload), v[1])))
    return _dedupe(out)


def eval_wrapvar(case, st=None):
    """
    A lone (non-list) object literal standing in a list position is wrapped; a VARIABLE inside that
    literal must still be resolved.  Positions `lb<i>(x: [Box<i>])` and `llb<i>(x: [[Box<i>!]])` with
    Box<i> = {v: T (py_v)}: the literal `{v: $v}` written lone, inside one and inside two list
    brackets, $v provided / null / unset with default / unset; plus the all-variable spelling.
    Every spelling is compared with the reference, hence with each other.
    """
    m = _model()
    schema, argdefs = _schema()
    b, s = case["base"], case["shape"]
    i = TINDEX[(b, s)]
    t = V.mk_type(b, s)
    good = _good_value(b, s)
    good_tree = V.natural_tree(good, t, m)
    box = "Box%d" % i
    V_ = ["var", "v"]
    obj = ["obj", [["v", V_]]]
    out = []
    states = [("provided", None, {"v": good}), ("null", None, {"v": None}), ("unset-default", good_tree, {}), ("unset", None, {})]
    spellings = [
        ("lb%d" % i, "lone", "{v: $v}", obj),
        ("lb%d" % i, "bracketed", "[{v: $v}]", ["list", [obj]]),
        ("llb%d" % i, "lone", "{v: $v}", obj),
        ("llb%d" % i, "inner-lone", "[{v: $v}]", ["list", [obj]]),
        ("llb%d" % i, "bracketed", "[[{v: $v}]]", ["list", [["list", [obj]]]]),
    ]
    for state, vdefault, payload in states:
        vd = [["v", t, vdefault]]
        for target, spelling, txt, tree in spellings:
            text = "query%s { %s(x: %s) }" % (_render_vardefs(vd), target, txt)
            ad = argdefs[target]
            adm = _expect(vd, payload, ad, {"x": tree}, m)
            impl, stage = run_e2e(text, payload, target)
            if st is not None:
                st.n("evaluations")
                st.n("route:lone-literal-with-variable")
                st.outcome(("wrapvar", spelling, impl.kind, stage))
                st.nt(("wrapvar", text, json.dumps(payload, sort_keys=True)))
            v = judge(adm, impl, ad, m)
            if v is not None:
                focus = [b, "variable-%s" % state]
                out.append((_cls(v[0], focus, "object-in-list-position:%s" % spelling), "%s variables=%s: %s" % (text, json.dumps(payload), v[1])))
    # the same value with everything through one variable (coerce_value does the wrapping)
    for target, wt in (("lb%d" % i, ["list", box]), ("llb%d" % i, ["list", ["list", ["nn", box]]])):
        for state, value in (("provided", {"v": good}), ("null", {"v": None})):
            vd = [["w", wt, None]]
            payload = {"w": value}
            text = "query%s { %s(x: $w) }" % (_render_vardefs(vd), target)
            ad = argdefs[target]
            adm = _expect(vd, payload, ad, {"x": ["var", "w"]}, m)
            impl, stage = run_e2e(text, payload, target)
            if st is not None:
                st.n("evaluations")
                st.n("route:lone-literal-with-variable")
                st.outcome(("wrapvar", "all-variable", impl.kind, stage))
                st.nt(("wrapvar", text, json.dumps(payload, sort_keys=True)))
            v = judge(adm, impl, ad, m)
            if v is not None:
                out.append((_cls(v[0], [b, "variable-%s" % state], "object-in-list-position:all-variable"), "%s variables=%s: %s" % (text, json.dumps(payload), v[1])))
    return _dedupe(out)


def eval_cond(case, st=None):
    """@skip / @include conditions: a wrong-kind value must not decide whether a resolver runs."""
    m = _model()
    v = case["value"]
    d = case["dir"]
    if case["how"] == "variable":
        text = "query($v: Boolean!) { cond @%s(if: $v) }" % d
        payload = {"v": v}
        adm = admissible(lambda pol: R.coerce_variable(["nn", "Boolean"], v, m, pol))
    else:
        tree = V.natural_tree(v, ["nn", "Boolean"], m)
        text = "{ cond @%s(if: %s) }" % (d, V.render_tree(tree))
        payload = {}
        adm = admissible(lambda pol: R.coerce_literal(["nn", "Boolean"], tree, {}, m, pol))
    impl, stage = run_e2e(text, payload, "cond")
    if st is not None:
        st.n("evaluations")
        st.n("route:cond")
        st.outcome(("cond", impl.kind, stage))
        st.nt(("cond", text, json.dumps(payload)))
    focus = ["Boolean", V.kind_of(v, "Boolean")]
    route = "variable" if case["how"] == "variable" else "literal"
    if impl.kind == "crash":
        return [(_cls("crash:" + impl.info.split(":")[0], focus, route), "%s %s: %s" % (text, payload, impl.info))]
    exp = adm[0]
    if exp is R.REJECT:
        if impl.kind == "accept":
            return [(_cls("accepted-invalid", focus, route), "%s variables=%s: a resolver ran although the condition is not a Boolean" % (text, json.dumps(payload)))]
        if impl.kind == "silent":
            # the field was skipped without any error: the invalid value silently decided
            return [(_cls("accepted-invalid", focus, route), "%s variables=%s: no error, field silently skipped: %s" % (text, json.dumps(payload), impl.info))]
        return []
    should_run = (not exp) if d == "skip" else exp
    ran = impl.kind == "accept"
    if impl.kind == "reject":
        return [(_cls("rejected-valid", focus, route), "%s variables=%s: %s" % (text, json.dumps(payload), impl.info))]
    if ran != should_run:
        return [(_cls("wrong-value:condition", focus, route), "%s variables=%s: resolver ran=%s expected %s" % (text, json.dumps(payload), ran, should_run))]
    return []


# ------------------------------------------------------------------------------------------
# the same field at several places of one operation, each with its own arguments

_I = lambda n: ["int", str(n)]  # noqa
# per argument: state -> (literal tree | None, variable type | None, payload value | absent marker)
MULTI_STATES = {
    "u": {"omit": None, "A": ["enum", "A"], "B": ["enum", "B"], "null": ["null"], "var": ("E", "B"), "var-unset": ("E",)},
    "s": {"omit": None, "2": _I(2), "max": _I(2 ** 31 - 1), "null": ["null"], "var": ("Int", 5), "var-unset": ("Int",), "var-null": ("Int", None)},
    "n": {"omit": None, "4": _I(4), "var-null": ("Int", None), "var-unset": ("Int",)},
    "i": {
        "omit": None,
        "x": ["obj", [["b", ["str", "x"]]]],
        "y": ["obj", [["b", ["str", "y"]], ["a", _I(2)], ["e", ["enum", "B"]]]],
        "var": ("In", {"b": "z"}),
    },
}
MULTI_ARGS = ("u", "s", "n", "i")
# assignments: nothing; each argument through each of its states alone; a few combinations
MULTI_ASSIGN = [["omit", "omit", "omit", "omit"]]
for _k, _a in enumerate(MULTI_ARGS):
    for _st in MULTI_STATES[_a]:
        if _st != "omit":
            _x = ["omit"] * 4
            _x[_k] = _st
            MULTI_ASSIGN.append(_x)
MULTI_ASSIGN += [
    ["A", "2", "4", "x"],
    ["var", "var", "omit", "var"],
    ["null", "null", "omit", "omit"],
    ["B", "var-unset", "var-unset", "y"],
]
# quick: nothing / literal / variable / unset variable / null / default per argument kind
MULTI_QUICK = [0, 1, 3, 4, 5, 6, 8, 9, 11, 13, 14, 15, 17, 19, 20]
MULTI_TRIPLE = [0, 1, 4, 6, 9, 14, 19, 20]
MULTI_SHAPES = ("aliases", "parents-same-key", "list-items", "merged", "depths")


def _multi_occurrence(assign, occ):
    """-> (argument text, given trees, vardefs, payload) of one occurrence of `size`"""
    parts, given, vardefs, payload = [], {}, [], {}
    for a, stt in zip(MULTI_ARGS, assign):
        v = MULTI_STATES[a][stt]
        if v is None:
            continue
        if isinstance(v, tuple):
            name = "%s%d" % (a, occ)
            vardefs.append([name, v[0], None])
            if len(v) > 1:
                payload[name] = v[1]
            tree = ["var", name]
        else:
            tree = v
        given[a] = tree
        parts.append("%s: %s" % (a, V.render_tree(tree)))
    return ("(%s)" % ", ".join(parts)) if parts else "", given, vardefs, payload


def _multi_document(shape, occs):
    """occs: rendered argument texts.  -> (selection text, {path: occurrence index})"""
    A = ["size" + o for o in occs]
    n = len(occs)
    if shape == "aliases":
        names = ["p", "q", "r"][:n]
        return "{ box(id: 1) { %s } }" % " ".join("%s: %s" % (nm, a) for nm, a in zip(names, A)), {"box.%s" % nm: k for k, nm in enumerate(names)}, ""
    if shape == "parents-same-key":
        names = ["first", "second", "third"][:n]
        return (
            "{ %s }" % " ".join("%s: box(id: %d) { %s }" % (nm, k + 1, a) for k, (nm, a) in enumerate(zip(names, A))),
            {"%s.size" % nm: k for k, nm in enumerate(names)},
            "",
        )
    if shape == "list-items":
        return (
            "{ boxes { %s } other: boxes { %s } }" % (A[0], A[1]),
            {"boxes.0.size": 0, "boxes.1.size": 0, "other.0.size": 1, "other.1.size": 1},
            "",
        )
    if shape == "merged":
        return (
            "{ box(id: 1) { %s } box(id: 1) { %s ...F } z: box(id: 2) { %s } }" % (A[0], A[0], A[1]),
            {"box.size": 0, "z.size": 1},
            " fragment F on Box { %s }" % A[0],
        )
    if shape == "depths":
        return "{ box(id: 1) { %s inner { %s } } }" % (A[0], A[1]), {"box.size": 0, "box.inner.size": 1}, ""
    raise ValueError(shape)


def eval_multi(case, st=None):
    from py_gql import graphql_blocking, process_graphql_query

    m = _model()
    schema, argdefs = _schema()
    ad = argdefs["size"]
    shape = case["shape"]
    texts, givens, vardefs, payload = [], [], [], {}
    for occ, ai in enumerate(case["assign"]):
        t, g, vd, pl = _multi_occurrence(MULTI_ASSIGN[ai], occ + 1)
        texts.append(t)
        givens.append(g)
        vardefs += vd
        payload.update(pl)
    sel, where, frags = _multi_document(shape, texts)
    text = ("query%s " % _render_vardefs(vardefs) if vardefs else "") + sel + frags
    expected = [_expect(vardefs, payload, ad, g, m) for g in givens]
    out = []
    per = {}
    for cfg in ("blocking", "default"):
        del CAPTURE[:]
        try:
            if cfg == "blocking":
                res = graphql_blocking(schema, text, variables=payload)
            else:
                res = process_graphql_query(schema, text, variables=payload)
            resp = res.response()
        except Exception as e:  # noqa
            per.setdefault("crash:" + type(e).__name__, []).append((cfg, "%s: %s" % (type(e).__name__, str(e)[:200])))
            continue
        caps = [c for c in CAPTURE if c[0] == "at"]
        if st is not None:
            st.n("evaluations")
            st.n("route:multi-occurrence")
            st.outcome(("multi", shape, len(caps), bool(resp.get("errors"))))
        err_paths = [".".join(str(x) for x in e.get("path") or []) for e in resp.get("errors") or []]
        probs = []
        if "data" not in resp or resp.get("data") is None:
            probs.append(("request-rejected", "the request is valid: %r" % (resp,)))
        for path, k in where.items():
            adm = expected[k]
            got = [c[2] for c in caps if c[1] == path]
            if len(got) > 1:
                probs.append(("invoked-twice", "%s invoked %d times" % (path, len(got))))
            if all(a is R.REJECT for a in adm):
                if got:
                    probs.append(("accepted-invalid", "%s received %r" % (path, got[0])))
                elif path not in err_paths:
                    probs.append(("no-error-reported", "%s neither invoked nor reported" % path))
                continue
            if not got:
                if "data" in resp and resp.get("data") is not None:
                    probs.append(("missing-invocation", "%s not invoked; errors %r" % (path, resp.get("errors"))))
                continue
            if any(a is not R.REJECT and R.same(a, got[0]) for a in adm):
                continue
            others = [j for j in range(len(expected)) if j != k and any(a is not R.REJECT and R.same(a, got[0]) for a in expected[j])]
            exp = [a for a in adm if a is not R.REJECT][0]
            if others:
                probs.append(("kwargs-of-other-occurrence", "%s received %r = the arguments of occurrence %d; its own are %r" % (path, got[0], others[0] + 1, exp)))
            else:
                probs.append(("wrong-kwargs", "%s received %r expected %r" % (path, got[0], exp)))
        for c in caps:
            if c[1] not in where:
                probs.append(("extra-invocation", "%s invoked" % c[1]))
        for p_, d in probs:
            per.setdefault(p_, []).append((cfg, d))
    if st is not None:
        st.nt(("multi", text, json.dumps(payload, sort_keys=True)))
        st.mx("occurrences", len(case["assign"]))
    for p_ in sorted(per):
        cfgs = []
        for c, _ in per[p_]:
            if c not in cfgs:
                cfgs.append(c)
        suffix = "" if len(cfgs) == 2 else "@" + cfgs[0]
        out.append(("multi-occurrence/%s/%s%s" % (shape, p_, suffix), "%s variables=%s: %s" % (text, json.dumps(payload), per[p_][0][1])))
    return out


# ------------------------------------------------------------------------------------------
# one field node executed against several concrete types (interface / union members)

ABS_STYLES = ("direct", "fragment", "inline-on-interface", "typed-twice")
ABS_ARGS = ("none", "literal", "var-value", "var-null", "var-unset", "var-unset-default")


def eval_absdef(case, st=None):
    from py_gql import graphql_blocking, process_graphql_query

    m = _model()
    schema, argdefs = _schema()
    f, style, a = case["field"], case["style"], case["args"]
    union = f.startswith("u")
    if style == "direct" and union:
        return []  # a union has no fields of its own
    order = ["Square", "Circle"] if f.endswith("R") else ["Circle", "Square"]
    vardefs, payload, given, argtxt = [], {}, {}, ""
    if a == "literal":
        given, argtxt = {"unit": ["enum", "B"]}, "(unit: B)"
    elif a.startswith("var"):
        given, argtxt = {"unit": ["var", "u"]}, "(unit: $u)"
        vardefs = [["u", "E", ["enum", "B"] if a == "var-unset-default" else None]]
        if a == "var-value":
            payload = {"u": "A"}
        elif a == "var-null":
            payload = {"u": None}
    frag = ""
    if style == "direct":
        sel = "size%s" % argtxt
    elif style == "fragment":
        sel, frag = "...F", " fragment F on Shape { size%s }" % argtxt
    elif style == "inline-on-interface":
        sel = "... on Shape { size%s }" % argtxt
    else:  # two nodes, one per concrete type (control: here every node has one definition)
        sel = "... on Circle { size%s } ... on Square { size%s }" % (argtxt, argtxt)
    text = "query%s { %s { %s } }%s" % (_render_vardefs(vardefs), f, sel, frag)
    expected = {"%s.%d.size" % (f, k): (t, _expect(vardefs, payload, argdefs[t + ".size"], given, m)) for k, t in enumerate(order)}
    per = {}
    for cfg in ("blocking", "default"):
        del CAPTURE[:]
        try:
            res = (graphql_blocking if cfg == "blocking" else process_graphql_query)(schema, text, variables=payload)
            resp = res.response()
        except Exception as e:  # noqa
            per.setdefault("crash:" + type(e).__name__, []).append((cfg, "%s: %s" % (type(e).__name__, str(e)[:200])))
            continue
        caps = [c for c in CAPTURE if c[0] == "at"]
        if st is not None:
            st.n("evaluations")
            st.n("route:abstract-field")
            st.outcome(("absdef", style, len(caps), bool(resp.get("errors"))))
        probs = []
        if resp.get("errors") or resp.get("data") is None:
            probs.append(("request-rejected", "the request is valid: %r" % (resp,)))
        for path, (t, adm) in expected.items():
            got = [c[2] for c in caps if c[1] == path]
            if not got:
                probs.append(("missing-invocation", "%s (%s) not invoked" % (path, t)))
                continue
            if len(got) > 1:
                probs.append(("invoked-twice", path))
            if any(x is not R.REJECT and R.same(x, got[0]) for x in adm):
                if not R.conforms_kwargs(got[0], argdefs[t + ".size"], m):
                    raise AssertionError("reference kwargs do not conform: %r" % (got[0],))
                continue
            exp = [x for x in adm if x is not R.REJECT][0]
            other = [p2 for p2, (t2, adm2) in expected.items() if t2 != t and any(x is not R.REJECT and R.same(x, got[0]) for x in adm2)]
            if other:
                probs.append(("kwargs-of-other-definition", "%s is a %s and received %r = the coercion against the other type's definition; its own gives %r" % (path, t, got[0], exp)))
            else:
                probs.append(("wrong-kwargs", "%s (%s) received %r expected %r" % (path, t, got[0], exp)))
        for p_, d in probs:
            per.setdefault(p_, []).append((cfg, d))
    if st is not None:
        st.nt(("absdef", text, json.dumps(payload, sort_keys=True)))
    out = []
    for p_ in sorted(per):
        cfgs = []
        for c, _ in per[p_]:
            if c not in cfgs:
                cfgs.append(c)
        suffix = "" if len(cfgs) == 2 else "@" + cfgs[0]
        out.append(("abstract-field/%s/%s%s" % (style, p_, suffix), "%s variables=%s: %s" % (text, json.dumps(payload), per[p_][0][1])))
    return out


# ------------------------------------------------------------------------------------------
# defaults declared in SDL

SDL_TYPES = """
enum E { A B }
input In { a: Int = 1, b: String!, c: [Int], e: E = A }
"""
# (no `self: In` here: build_schema does not terminate on recursive input types -- C11's subject)


def _sdl_model():
    m = V.model()
    m = dict(m)
    m["E"] = {"kind": "enum", "values": [["A", "A"], ["B", "B"]]}
    fs = []
    for f in V.IN_FIELDS:
        if f["name"] == "self":
            continue
        f = dict(f)
        f["python_name"] = f["name"]
        if f["name"] == "e":
            f["default"] = "A"
        fs.append(f)
    m["In"] = {"kind": "input", "fields": fs}
    return m


def eval_sdl(case, st=None):
    from py_gql import build_schema, graphql_blocking

    m = _sdl_model()
    b, s = case["base"], case["shape"]
    t = V.mk_type(b, s)
    tt = R.type_text(t)
    value = case["leaf"]
    if isinstance(value, dict) and "self" in value:
        value = {k: x for k, x in value.items() if k != "self"}
    tree = V.natural_tree(value, t, m)
    if not V.tree_is_renderable(tree):
        return []
    lit = V.render_tree(tree)
    focus = case["focus"]
    adm = admissible(lambda pol: R.coerce_literal(t, tree, {}, m, pol))
    got = []

    def res(root, ctx, info, **kw):
        got.append(kw)
        return True

    if case["where"] == "argument":
        sdl = SDL_TYPES + "type Query { f(x: %s = %s): Boolean }" % (tt, lit)
        expected = [a if a is R.REJECT else {"x": a} for a in adm]
        ad = [{"name": "x", "type": t, "has_default": True, "default": None, "python_name": "x"}]
    else:
        sdl = SDL_TYPES + "input W { w: %s = %s }\ntype Query { f(x: W): Boolean }" % (tt, lit)
        expected = [a if a is R.REJECT else {"x": {"w": a}} for a in adm]
        m["W"] = {"kind": "input", "fields": [{"name": "w", "type": t, "has_default": True, "default": None, "python_name": "w"}]}
        ad = [{"name": "x", "type": "W", "has_default": False, "default": None, "python_name": "x"}]
    query = "{ f }" if case["where"] == "argument" else "{ f(x: {}) }"
    try:
        schema = build_schema(sdl)
        schema.register_resolver("Query", "f", res)
        r = graphql_blocking(schema, query)
        resp = r.response()
        if got:
            impl = Impl("accept", got[0])
        elif resp.get("errors"):
            impl = Impl("reject", None, "request error: %s" % str(resp["errors"][0].get("message"))[:160])
        else:
            impl = Impl("silent", None, repr(resp))
    except Exception as e:  # noqa
        from py_gql.exc import GraphQLError

        if isinstance(e, (GraphQLError,)):
            impl = Impl("reject", None, "schema rejected: %s: %s" % (type(e).__name__, str(e)[:160]))
        else:
            impl = Impl("crash", None, "%s: %s" % (type(e).__name__, str(e)[:200]))
    if st is not None:
        st.n("evaluations")
        st.n("route:sdl-default")
        st.outcome(("sdl", impl.kind))
        if any(a is not R.REJECT for a in adm) or value is not None:
            st.nt(("sdl", sdl))
    if impl.kind == "silent" and all(a is R.REJECT for a in adm):
        return []
    # conforms is evaluated against the declared types with the default's own value
    v = None
    if impl.kind == "crash":
        v = ("crash:" + impl.info.split(":")[0], impl.info)
    elif impl.kind == "reject":
        if not any(a is R.REJECT for a in expected):
            v = ("rejected-valid", impl.info)
    elif impl.kind == "accept":
        if not any(a is not R.REJECT and R.same(a, impl.value) for a in expected):
            if all(a is R.REJECT for a in expected):
                v = ("accepted-invalid", "resolver received %r" % (impl.value,))
            else:
                exp = [a for a in expected if a is not R.REJECT][0]
                v = ("wrong-value:%s/conforms=%s" % (diff(exp["x"], impl.value.get("x"), ad[0]["type"], m), "n/a"), "expected %r received %r" % (exp, impl.value))
    if v is None:
        return []
    return [(_cls(v[0], focus, "sdl-default"), "%s ; %s : %s" % (sdl.replace(SDL_TYPES, "").strip(), query, v[1]))]


# ------------------------------------------------------------------------------------------


def evaluate(case, st=None):
    k = case["k"]
    if k in ("val", "lit"):
        return eval_val(case, st)
    if k in ("args", "objlit"):
        return eval_presence(case, st)
    if k == "argpres":
        return eval_argpres(case, st)
    if k == "nnvar":
        return eval_nnvar(case, st)
    if k == "wrapvar":
        return eval_wrapvar(case, st)
    if k == "cond":
        return eval_cond(case, st)
    if k == "sdl":
        return eval_sdl(case, st)
    if k == "multi":
        return eval_multi(case, st)
    if k == "absdef":
        return eval_absdef(case, st)
    raise ValueError(k)


def check_case(case, st):
    st.n("kind:" + case["k"])
    if st.counters.get("cases", 0) % 401 == 1:
        st.sample(case)
    return [(cls, case, detail) for cls, detail in evaluate(case, st)]


def replay(witness):
    return evaluate(witness, None)
