# -*- coding: utf-8 -*-
"""
C15 -- introspection reports exactly the schema.

Engine E3.  Every schema model with <= K features switched on (mc/gen/schemas.py), built from our own SDL
and through the constructors with code-only facets (enum internal values, python_names, a scalar with
its own value type), is introspected with the library's standard introspection_query() -- includeDeprecated
patched to true / false -- through graphql_blocking and through process_graphql_query with the generic
Executor.  The JSON result is converted by sm_from_introspection (own code) and compared with what
sm_from_schema reads from the live objects: every type with kind, description, fields, args, input
fields, enum values, interfaces, possible types; directives with locations and args; root types;
deprecation flags and reasons; deprecated members present only when requested.  Every `defaultValue`
string is parsed with py_gql's parse_value, turned into a literal tree and coerced by the reference
coercion (mc/ref/coerce_lit) at the declared type: the result must be the declared default.
`__type(name:)` is asked for every type of the schema and for a name the schema does not have.
With disable_introspection=True the same queries must yield no `__schema` / `__type` content while an
ordinary field keeps its value.
"""
import json
import re

from mc.gen import schemas as G
from mc.ref import coerce_lit as CL
from mc.ref import schema_model as M

READY = True
LEVEL = "exploration"
TECHNIQUE = "bounded-exhaustive enumeration of schema models x introspection flags x executors, JSON result compared with an independent extraction of the live schema; default values re-parsed and re-coerced by a reference model"
LEVEL_TEXT = (
    "Every schema model inside the feature bound is introspected on the real implementation for every flag combination; "
    "the result is compared element by element with the schema objects and every default value string is checked to be "
    "GraphQL syntax denoting the declared default. Exhaustive inside the bound; small-scope argument beyond."
)
LEVEL_NOTE = (
    "Trusts py_gql.lang.parse_value to read GraphQL value syntax (C01/C02), the extractor (public attributes), the "
    "reference coercion (self-tested) and, for SDL-built inputs, build_schema on documents C11 found to be built faithfully."
)
DESIGN_REF = "DESIGN.md section 6, C15"
RULE = (
    "case = (feature set with <= K features, route sdl|code+); evaluation = one execution of an introspection query "
    "(standard query per includeDeprecated value, generic executor, __type per type name, disabled variants); "
    "non-trivial = distinct (schema text, flags) whose result was converted and compared"
)
ASSUMPTIONS = [
    "the standard query is py_gql.utilities.introspection_query() exactly as returned and is expected to request deprecated members; the includeDeprecated false / omitted variants patch that text, or use our own copy of the query when the text does not have the expected shape",
    "includeDeprecated false / omitted are only run for models (and, in __type lookups, for types) that declare a deprecation (the result is otherwise identical by construction of the query)",
    "code route is run for models with enum / input / scalar types (the only places where code-only facets are visible to introspection)",
    "order of fields / args / enum values / input fields is compared; interfaces and possible types are compared as sets of names",
    "disable_introspection is documented as 'prevent schema introspection ... keeping your API available': __schema/__type must be absent or null, errors are allowed, ordinary fields must be unchanged; __typename is not constrained",
    "models whose SDL the builder rejects (C11 findings) are exercised through the code route only",
]
BOUNDS = {
    "quick": {"features": 2, "generic_executor_upto": 1, "type_lookup_upto": 1, "disabled_upto": 1, "both_routes_upto": 2, "omitted_upto": 1, "directive_change_upto": 1},
    "thorough": {"features": 3, "generic_executor_upto": 2, "type_lookup_upto": 2, "disabled_upto": 2, "both_routes_upto": 2, "omitted_upto": 2, "directive_change_upto": 2},
}
TIME_CAP = {"quick": 150, "thorough": 1500}

ROOT = {"a": 7}

# ---------------------------------------------------------------------------------------------


def exc_where(e):
    if isinstance(e, RecursionError):
        return ""
    import traceback

    where = ""
    for fr in traceback.extract_tb(e.__traceback__):
        if "py_gql" in fr.filename:
            where = fr.name
    return ("@" + where) if where else ""


OWN_QUERY = """
query IntrospectionQuery {
  __schema {
    queryType { name } mutationType { name } subscriptionType { name }
    types { ...FullType }
    directives { name description locations args { ...InputValue } }
  }
}
fragment FullType on __Type {
  kind name description
  fields%(arg)s { name description args { ...InputValue } type { ...TypeRef } isDeprecated deprecationReason }
  inputFields { ...InputValue }
  interfaces { ...TypeRef }
  enumValues%(arg)s { name description isDeprecated deprecationReason }
  possibleTypes { ...TypeRef }
}
fragment InputValue on __InputValue { name description type { ...TypeRef } defaultValue }
fragment TypeRef on __Type {
  kind name ofType { kind name ofType { kind name ofType { kind name ofType { kind name ofType { kind name ofType { kind name ofType { kind name } } } } } } }
}
"""
_ARG = {True: "(includeDeprecated: true)", False: "(includeDeprecated: false)", "omitted": ""}


def std_query(include_deprecated):
    """True: the library's introspection_query() exactly as returned (the property is about THAT query; it is
    expected to ask for deprecated members).  False / "omitted": the same text with the argument patched when
    the text has the expected two occurrences, otherwise our own copy of the standard query."""
    from py_gql.utilities import introspection_query

    q = introspection_query()
    if include_deprecated is True:
        return q
    if q.count("(includeDeprecated: true)") == 2:
        return q.replace("(includeDeprecated: true)", _ARG[include_deprecated])
    return OWN_QUERY % {"arg": _ARG[include_deprecated]}


def make(features, route):
    """-> (schema|None, model used for coercion, note)"""
    from py_gql import build_schema

    sm = G.build_sm(features)
    if route == "sdl":
        try:
            return build_schema(M.sm_to_sdl(sm)), sm, None
        except RecursionError:
            return None, sm, "sdl-unbuildable:RecursionError"
        except Exception as e:  # noqa  (C11 territory)
            return None, sm, "sdl-unbuildable:%s" % type(e).__name__
    smi = G.with_internals(sm)
    # route "code1": a single value standing for a list default is passed to the constructors UNWRAPPED
    s = M.sm_to_code(smi, unwrapped_singles=(route == "code1"))
    s.validate()
    return s, smi, None


def expected_view(nsm, include_deprecated):
    """Project the extracted schema onto what introspection is allowed to show."""
    import copy

    n = copy.deepcopy(nsm)
    for t in n["types"].values():
        if "fields" in t and t["kind"] in ("object", "interface") and not include_deprecated:
            t["fields"] = [f for f in t["fields"] if not f["deprecated"]]
        if "values" in t and not include_deprecated:
            t["values"] = [v for v in t["values"] if not v["deprecated"]]
        if "interfaces" in t:
            t["interfaces"] = sorted(t["interfaces"])
        t.pop("members", None)
    return n


def _run(schema, query, generic=False, disabled=False):
    """-> ("ok", response dict) | ("raises", class suffix, message)"""
    from py_gql import graphql_blocking, process_graphql_query
    from py_gql.execution import BlockingExecutor, Executor

    try:
        if generic or disabled:
            res = process_graphql_query(
                schema,
                query,
                root=ROOT,
                disable_introspection=disabled,
                executor_cls=Executor if generic else BlockingExecutor,
            )
        else:
            res = graphql_blocking(schema, query, root=ROOT)
        resp = res.response()
        return ("ok", json.loads(json.dumps(resp)))
    except RecursionError as e:
        return ("raises", "RecursionError", str(e)[:200])
    except Exception as e:  # noqa
        return ("raises", type(e).__name__ + exc_where(e), str(e)[:300])


def _kind_of(env, type_text):
    named = type_text.replace("[", "").replace("]", "").replace("!", "")
    if named in env:
        return env[named]["kind"]
    return named


def _norm_msg(m):
    m = re.sub(r'"[^"]*"', '"_"', str(m))
    m = re.sub(r"'[^']*'", "'_'", m)
    m = re.sub(r"\d+", "N", m)
    return m[:80]


def check_standard(schema, model, include_deprecated, generic, st=None, blocking_result=None):
    """One run of the standard query. -> (violations [(class, detail)], response or None)"""
    from py_gql.lang import parse_value

    out = []
    r = _run(schema, std_query(include_deprecated), generic=generic)
    if st is not None:
        st.n("evaluations")
    if r[0] == "raises":
        m = re.search(r'Field "([^"]+)"', r[2])
        at = ("/at=" + re.sub(r"\d+", "N", m.group(1))) if m else ""
        return [("crash:%s%s" % (r[1], at), "standard introspection query (includeDeprecated=%s, generic=%s) raised %s: %s" % (include_deprecated, generic, r[1], r[2]))], None
    resp = r[1]
    if resp.get("errors"):
        return [("response-errors:%s" % _norm_msg(resp["errors"][0].get("message")), "errors: %r" % resp["errors"][:2])], resp
    data = resp.get("data")
    if generic and blocking_result is not None:
        if resp != blocking_result:
            out.append(("executor-differs", "generic Executor and BlockingExecutor disagree on the standard query"))
        return out, resp
    try:
        conv = M.sm_from_introspection(data)
    except (KeyError, TypeError, ValueError, AttributeError) as e:
        return [("malformed-result:%s" % type(e).__name__, "%s: %s" % (type(e).__name__, str(e)[:200]))], resp
    base, _ = M.sm_from_schema(schema, builtin=True)
    exp = expected_view(base, include_deprecated is True)
    for t in conv["types"].values():
        if t.get("interfaces") is not None:
            t["interfaces"] = sorted(t["interfaces"])
    if st is not None:
        st.nt(json.dumps(data, sort_keys=True))
        st.outcome(sorted(conv["types"]))
    seen = set()
    for what, path, e, g in M.sm_diff(exp, conv, ignore=("default", "python_name", "value")):
        cls = "content-differs:" + what
        if what in ("field.names", "field.order") and path in exp["types"]:
            cls += "[%s]" % exp["types"][path]["kind"]  # object or interface fields
        if include_deprecated is True and what.endswith(".names") and not generic:
            cls += "/standard-query"  # the unmodified query of the library must show every member
        if cls in seen:
            continue
        seen.add(cls)
        out.append((cls, "%s at %s (includeDeprecated=%s): schema has %r, introspection reports %r" % (what, path, include_deprecated, e, g)))
    for name, t in conv["types"].items():
        for k in t:
            if k.startswith("unexpected:") or k == "duplicate":
                out.append(("content-differs:type.%s" % k.replace("unexpected:", "not-null-"), "%s on type %s" % (k, name)))
        for k in ("fields", "values", "interfaces", "possible"):
            if k in t and t[k] is None:
                out.append(("content-differs:type.%s-null" % k, "%s is null on type %s of kind %s" % (k, name, t["kind"])))
    # default values
    env = M.sm_env(model)

    def defaults():
        for tn, t in conv["types"].items():
            bt = base["types"].get(tn)
            if bt is None or bt["kind"] != t["kind"]:
                continue
            if t["kind"] in ("object", "interface"):
                for f in t.get("fields") or ():
                    bf = [x for x in bt["fields"] if x["name"] == f["name"]]
                    for a in f["args"]:
                        ba = [x for x in (bf[0]["args"] if bf else ()) if x["name"] == a["name"]]
                        if ba:
                            yield "%s.%s.%s" % (tn, f["name"], a["name"]), a, ba[0]
            if t["kind"] == "input":
                for f in t.get("fields") or ():
                    bf = [x for x in bt["fields"] if x["name"] == f["name"]]
                    if bf:
                        yield "%s.%s" % (tn, f["name"]), f, bf[0]
        for dn, d in conv["directives"].items():
            bd = base["directives"].get(dn)
            for a in d["args"]:
                ba = [x for x in (bd["args"] if bd else ()) if x["name"] == a["name"]]
                if ba:
                    yield "@%s.%s" % (dn, a["name"]), a, ba[0]

    for path, got, declared in defaults():
        if not declared["has_default"] or got["default_text"] is None:
            continue  # presence is compared through has_default above
        if st is not None:
            st.n("defaults_checked")
        kind = _kind_of(env, declared["type"])
        text = got["default_text"]
        try:
            lit = CL.lit_from_ast(parse_value(text))
        except Exception as e:  # noqa
            cls = "default-not-graphql:%s" % kind
            if cls not in seen:
                seen.add(cls)
                out.append((cls, "defaultValue %r of %s (%s) is not GraphQL syntax: %s" % (text, path, declared["type"], type(e).__name__)))
            continue
        try:
            val = CL.canon_value(CL.coerce_literal(env, CL.T(declared["type"]), lit))
        except CL.Reject as e:
            cls = "default-not-coercible:%s/lit=%s" % (kind, lit[0])
            if cls not in seen:
                seen.add(cls)
                out.append((cls, "defaultValue %r of %s does not coerce to %s: %s" % (text, path, declared["type"], e)))
            continue
        if val != M.wrap_canon(declared["default"], CL.T(declared["type"])):  # (a single value for a list type denotes the one-item list)
            cls = "default-differs:%s/lit=%s" % (kind, lit[0])
            if cls not in seen:
                seen.add(cls)
                out.append((cls, "defaultValue %r of %s denotes %r, declared default is %r" % (text, path, val, declared["default"])))
    return out, resp


TYPE_QUERY = """
query ($n: String!) { __type(name: $n) { kind name description
  fields%(arg)s { name } inputFields { name } enumValues%(arg)s { name }
  interfaces { name } possibleTypes { name } } }
"""
LOOKUP_ARGS = {"true": "(includeDeprecated: true)", "false": "(includeDeprecated: false)", "omitted": ""}


def _type_lookup(schema, name, disabled=False, mode="true"):
    from py_gql import process_graphql_query
    from py_gql.execution import BlockingExecutor

    try:
        res = process_graphql_query(
            schema, TYPE_QUERY % {"arg": LOOKUP_ARGS[mode]}, variables={"n": name}, root=ROOT, executor_cls=BlockingExecutor, disable_introspection=disabled
        )
        return ("ok", json.loads(json.dumps(res.response())))
    except Exception as e:  # noqa
        return ("raises", type(e).__name__ + exc_where(e), str(e)[:200])


def check_type_lookup(schema, st=None):
    out = []
    base, _ = M.sm_from_schema(schema, builtin=True)
    seen = set()
    for name, t in sorted(base["types"].items()):
        if name.startswith("__") or name in CL.SPECIFIED:
            continue
        has_dep = any(x["deprecated"] for x in (t.get("fields") or []) if "deprecated" in x) or any(v["deprecated"] for v in t.get("values") or [])
        for mode in ("true", "false", "omitted") if has_dep else ("true",):
            cls = _lookup_one(schema, name, t, mode, st)
            if cls and cls not in seen:
                seen.add(cls)
                out.append((cls, "__type(name: %r) with includeDeprecated %s" % (name, mode)))
    if st is not None:
        st.n("evaluations")
    r = _type_lookup(schema, "NoSuchTypeZz")
    if r[0] == "raises":
        out.append(("crash:%s/__type-unknown-name" % r[1], "__type(name: \"NoSuchTypeZz\") raised %s: %s" % (r[1], r[2])))
    elif r[1].get("errors"):
        out.append(("response-errors/__type-unknown-name:%s" % _norm_msg(r[1]["errors"][0].get("message")), "%r" % r[1]["errors"][:1]))
    elif (r[1].get("data") or {}).get("__type", "absent") is not None:
        out.append(("content-differs:__type.unknown-name-not-null", "%r" % r[1]))
    return out


def _lookup_one(schema, name, t, mode, st=None):
    """one __type(name:) query -> class of the first difference or None"""
    show = mode == "true"
    if st is not None:
        st.n("evaluations")
    r = _type_lookup(schema, name, mode=mode)
    if r[0] == "raises":
        cls = "crash:%s/__type" % r[1]
    elif r[1].get("errors"):
        cls = "response-errors/__type:%s" % _norm_msg(r[1]["errors"][0].get("message"))
    else:
        j = (r[1].get("data") or {}).get("__type")
        cls = None
        if j is None:
            cls = "content-differs:__type.null-for-existing-type"
        else:
            want_kind = {v: k for k, v in M._KIND.items()}[t["kind"]]
            if j["kind"] != want_kind or j["name"] != name or j["description"] != t["description"]:
                cls = "content-differs:__type.kind-name-description"
            members = {
                "fields": [f["name"] for f in t["fields"] if show or not f["deprecated"]] if t["kind"] in ("object", "interface") else None,
                "inputFields": [f["name"] for f in t["fields"]] if t["kind"] == "input" else None,
                "enumValues": [v["name"] for v in t["values"] if show or not v["deprecated"]] if t["kind"] == "enum" else None,
                "interfaces": sorted(t["interfaces"]) if t["kind"] == "object" else None,
                "possibleTypes": t.get("possible") if t["kind"] in ("interface", "union") else None,
            }
            for k, want in members.items():
                got = j.get(k)
                got = [x["name"] for x in got] if got is not None else None
                if k in ("interfaces", "possibleTypes") and got is not None:
                    got = sorted(got)
                if got != want and cls is None:
                    cls = "content-differs:__type.%s[%s]/includeDeprecated=%s" % (k, t["kind"], mode)
    return cls


def check_after_directive_change(features, st=None):
    """History: introspect, change the schema's DIRECTIVES in place through the public SchemaVisitor API (no type is
    replaced), introspect again.  The second result must describe the changed schema (same oracle as the standard
    query) and equal the introspection of a freshly built equivalent schema: nothing memoised by the first
    introspection may survive the change."""
    import copy

    from py_gql import build_schema
    from py_gql.schema import Directive, SchemaVisitor

    out = []
    sm0 = G.build_sm(features)
    customs = [d["name"] for d in sm0["directives"]]
    if not customs:
        return out
    target = customs[0]
    for mode in ("remove", "rewrite"):
        try:
            schema = build_schema(M.sm_to_sdl(sm0))
        except Exception:  # noqa (C11 territory)
            return out
        r1 = _run(schema, std_query(True))
        if r1[0] != "ok" or r1[1].get("errors"):
            return out  # reported by std-true
        sm = copy.deepcopy(sm0)
        if mode == "remove":
            sm["directives"] = [d for d in sm["directives"] if d["name"] != target]
            # (applications of the removed directive stay in the AST nodes only: introspection does not show them)

            class V(SchemaVisitor):
                def on_directive(self, d):
                    return None if d.name == target else d

        else:
            for d in sm["directives"]:
                if d["name"] == target:
                    d["locations"] = ["QUERY", "ENUM"]
                    d["description"] = "rewritten"
                    d["args"] = []

            class V(SchemaVisitor):
                def on_directive(self, d):
                    return Directive(d.name, ["QUERY", "ENUM"], args=[], description="rewritten") if d.name == target else d

        try:
            changed = V().on_schema(schema)
        except Exception as e:  # noqa
            out.append(("after-directive-change:visitor-raises:%s%s" % (type(e).__name__, exc_where(e)), "%s visitor: %s" % (mode, str(e)[:200])))
            continue
        if st is not None:
            st.n("evaluations", 2)
        v2, r2 = check_standard(changed, sm, True, False, None)
        for cls, detail in v2:
            out.append(("after-directive-change/%s:%s" % (mode, cls), detail))
        fresh = build_schema(M.sm_to_sdl(sm))
        r3 = _run(fresh, std_query(True))
        if r2 is not None and r3[0] == "ok" and not v2:
            a, b = (r2.get("data") or {}).get("__schema"), (r3[1].get("data") or {}).get("__schema")
            if a != b:
                what = [k for k in (a or {}) if (a or {}).get(k) != (b or {}).get(k)]
                out.append(("after-directive-change/%s:differs-from-fresh-schema:%s" % (mode, "+".join(sorted(what))), "second introspection differs from the introspection of a freshly built equivalent schema in %s" % what))
    return out


def _mentions_schema(value):
    """any non-null content under a __schema / __type key"""
    if isinstance(value, dict):
        for k, v in value.items():
            if k in ("__schema", "__type") and v is not None:
                return True
            if _mentions_schema(v):
                return True
    elif isinstance(value, list):
        return any(_mentions_schema(v) for v in value)
    return False


def check_disabled(schema, st=None):
    out = []
    plain = _run(schema, "{ a(x: 1) }")
    for label, q in (
        ("standard", std_query(True)),
        ("schema+field", "{ a(x: 1) __schema { queryType { name } types { name } } }"),
        ("type+field", '{ a(x: 1) __type(name: "Query") { name fields { name } } }'),
    ):
        if st is not None:
            st.n("evaluations")
        r = _run(schema, q, disabled=True)
        if r[0] == "raises":
            out.append(("crash-when-disabled:%s" % r[1], "%s query with introspection disabled raised %s: %s" % (label, r[1], r[2])))
            continue
        resp = r[1]
        if _mentions_schema(resp.get("data")):
            out.append(("leaks-when-disabled", "%s query still returns schema content: %r" % (label, json.dumps(resp)[:300])))
        if label != "standard" and plain[0] == "ok":
            want = (plain[1].get("data") or {}).get("a")
            got = (resp.get("data") or {}).get("a", "absent")
            if got != want:
                out.append(("ordinary-field-changed-when-disabled", "%s: field a is %r with introspection enabled and %r when disabled" % (label, want, got)))
    # the type lookup with variables
    r = _type_lookup(schema, "Query", disabled=True)
    if r[0] == "raises":
        out.append(("crash-when-disabled:%s" % r[1], "__type lookup raised %s" % r[2]))
    elif _mentions_schema(r[1].get("data")):
        out.append(("leaks-when-disabled", "__type lookup still answers: %r" % json.dumps(r[1])[:300]))
    return out


# ---------------------------------------------------------------------------------------------


def _has_deprecation(sm):
    for t in sm["types"]:
        for f in t.get("fields", []):
            if f.get("deprecation"):
                return True
        for v in t.get("values", []):
            if v.get("deprecation"):
                return True
    return False


def _has_code_facets(sm):
    return any(t["kind"] in ("enum", "input", "scalar") for t in sm["types"])


def evaluate(features, route, part, st=None):
    """part: "std-true" | "std-false" | "std-omitted" | "generic" | "lookup" | "disabled" | "directive-change" -> [(class, detail)]"""
    schema, model, note = make(features, route)
    if schema is None:
        if st is not None:
            st.n(note)
        return []
    if part == "std-true":
        return check_standard(schema, model, True, False, st)[0]
    if part == "std-false":
        return check_standard(schema, model, False, False, st)[0]
    if part == "std-omitted":
        return check_standard(schema, model, "omitted", False, st)[0]
    if part == "generic":
        v, resp = check_standard(schema, model, True, False, None)
        if resp is None or resp.get("errors"):
            return []  # already reported by std-true
        return check_standard(schema, model, True, True, st, blocking_result=resp)[0]
    if part == "lookup":
        return check_type_lookup(schema, st)
    if part == "disabled":
        return check_disabled(schema, st)
    if part == "directive-change":
        return check_after_directive_change(features, st)
    raise ValueError(part)


def parts_for(features, route, bounds):
    sm = G.build_sm(features)
    parts = ["std-true"]
    if len(features) > 1 and any(f in G.EXTRA for f in features):
        # a string / description content class on a carrier: only what the standard query reports matters
        if _has_deprecation(sm):
            parts.append("std-false")
        return parts
    if _has_deprecation(sm):
        parts.append("std-false")
        if len(features) <= bounds["omitted_upto"]:
            parts.append("std-omitted")
    if len(features) <= bounds["generic_executor_upto"]:
        parts.append("generic")
    if len(features) <= bounds["type_lookup_upto"]:
        parts.append("lookup")
    if len(features) <= bounds["disabled_upto"]:
        parts.append("disabled")
    if route == "sdl" and sm["directives"] and len(features) <= bounds["directive_change_upto"]:
        parts.append("directive-change")
    return parts


def cases(tier):
    b = BOUNDS[tier]
    for fs in G.feature_sets(b["features"]):
        if len(fs) > b["both_routes_upto"] or (len(fs) > 1 and any(f in G.EXTRA for f in fs)):
            # largest sets: one route -- SDL, or the constructors when the builder rejects the SDL
            yield {"features": fs, "route": "sdl-or-code+", "tier": tier}
            continue
        yield {"features": fs, "route": "sdl", "tier": tier}
        yield {"features": fs, "route": "code+", "tier": tier}
        if "d:list-single" in fs or "d:list" in fs or "d:obj" in fs:
            yield {"features": fs, "route": "code1", "tier": tier}


def check_case(case, st):
    sm = G.build_sm(case["features"])
    if case["route"] == "sdl-or-code+":
        case = dict(case, route="sdl" if make(case["features"], "sdl")[0] is not None else "code+")
    if case["route"] in ("code+", "code1") and len(case["features"]) > 0 and not _has_code_facets(sm):
        st.n("code_route_skipped_no_code_facets")
        return []
    out = []
    st.n("route:" + case["route"])
    if st.counters.get("cases", 0) % 257 == 1:
        st.sample({"features": case["features"], "route": case["route"]})
    for part in parts_for(case["features"], case["route"], BOUNDS[case["tier"]]):
        if st.out_of_time():
            break
        for cls, detail in evaluate(case["features"], case["route"], part, st):
            out.append((cls, {"features": case["features"], "route": case["route"], "part": part}, detail))
    return out


def replay(witness):
    return evaluate(witness["features"], witness["route"], witness["part"], None)


def selftest():
    M.selftest()
    G.selftest()
    # the converter reads a hand-written result
    tref = lambda n: {"kind": "SCALAR", "name": n, "ofType": None}  # noqa: E731
    data = {
        "__schema": {
            "queryType": {"name": "Q"},
            "mutationType": None,
            "subscriptionType": None,
            "directives": [],
            "types": [
                {
                    "kind": "OBJECT",
                    "name": "Q",
                    "description": None,
                    "fields": [
                        {
                            "name": "a",
                            "description": "d",
                            "args": [{"name": "x", "description": None, "type": {"kind": "LIST", "name": None, "ofType": {"kind": "NON_NULL", "name": None, "ofType": tref("Int")}}, "defaultValue": "[1]"}],
                            "type": {"kind": "NON_NULL", "name": None, "ofType": tref("Int")},
                            "isDeprecated": True,
                            "deprecationReason": "r",
                        }
                    ],
                    "inputFields": None,
                    "interfaces": [],
                    "enumValues": None,
                    "possibleTypes": None,
                }
            ],
        }
    }
    n = M.sm_from_introspection(data)
    f = n["types"]["Q"]["fields"][0]
    assert f["type"] == "Int!" and f["args"][0]["type"] == "[Int!]" and f["args"][0]["default_text"] == "[1]" and f["deprecated"] and f["reason"] == "r"
    assert n["roots"] == {"query": "Q", "mutation": None, "subscription": None}
    assert _mentions_schema({"a": 1, "__schema": {"x": 1}}) and not _mentions_schema({"a": 1, "__schema": None})
