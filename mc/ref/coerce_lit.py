# -*- coding: utf-8 -*-
"""
Reference model of GraphQL *constant literals* and of their input coercion (June 2018 spec, 3.x
"Input Coercion" of every type kind), independent of py_gql.

literal tree (JSON-able):
    ["int", "123"]      lexeme
    ["float", "1.5"]    lexeme
    ["str", "text"]     decoded value
    ["bool", true]
    ["null"]
    ["enum", "NAME"]
    ["list", [lit, ...]]
    ["obj", [[name, lit], ...]]

Type expressions are nested tuples ("n", name) | ("l", t) | ("nn", t); `T("[Int!]!")` parses the usual
notation.  A *type environment* is the ``types`` mapping of a schema model (see schema_model.py): name ->
{"kind": ..., "values": [...], "fields": [...]}; the five specified scalars need no entry.

coerce_literal(env, texpr, lit) -> python value, raising Reject when the spec says the literal is not
coercible.  Python values use: int, float, str, bool, None, list, dict (keys = python_name of the input
field), and for enums the *internal* value of the schema model.  canon_value(v) makes a value comparable
and JSON-able with the Python type kept apart (1 != 1.0 != True).
"""
import json

MAX_INT = 2147483647
MIN_INT = -2147483648


class Reject(Exception):
    pass


# ---------------------------------------------------------------------------------------------
# type expressions


def T(text):
    """'[Int!]!' -> ("nn", ("l", ("nn", ("n", "Int"))))"""
    text = text.strip()
    if text.endswith("!"):
        return ("nn", T(text[:-1]))
    if text.startswith("["):
        assert text.endswith("]"), text
        return ("l", T(text[1:-1]))
    assert text and all(c.isalnum() or c == "_" for c in text), text
    return ("n", text)


def tstr(t):
    if t[0] == "n":
        return t[1]
    if t[0] == "l":
        return "[" + tstr(t[1]) + "]"
    return tstr(t[1]) + "!"


def tname(t):
    while t[0] != "n":
        t = t[1]
    return t[1]


# ---------------------------------------------------------------------------------------------
# rendering a literal as GraphQL text (own code: never py_gql's printer)


def _quote(s):
    out = ['"']
    for ch in s:
        o = ord(ch)
        if ch == '"':
            out.append('\\"')
        elif ch == "\\":
            out.append("\\\\")
        elif ch == "\n":
            out.append("\\n")
        elif ch == "\r":
            out.append("\\r")
        elif ch == "\t":
            out.append("\\t")
        elif o < 0x20:
            out.append("\\u%04x" % o)
        else:
            out.append(ch)
    out.append('"')
    return "".join(out)


def lit_to_text(lit):
    k = lit[0]
    if k in ("int", "float", "enum"):
        return lit[1]
    if k == "str":
        return _quote(lit[1])
    if k == "bool":
        return "true" if lit[1] else "false"
    if k == "null":
        return "null"
    if k == "list":
        return "[" + ", ".join(lit_to_text(x) for x in lit[1]) + "]"
    if k == "obj":
        return "{" + ", ".join("%s: %s" % (n, lit_to_text(v)) for n, v in lit[1]) + "}"
    raise ValueError(lit)


def lit_kind(lit):
    return lit[0]


def lit_from_ast(node):
    """py_gql value node -> literal tree (dispatch on class *names* only)."""
    cn = type(node).__name__
    if cn == "IntValue":
        return ["int", node.value]
    if cn == "FloatValue":
        return ["float", node.value]
    if cn == "StringValue":
        return ["str", node.value]
    if cn == "BooleanValue":
        return ["bool", bool(node.value)]
    if cn == "NullValue":
        return ["null"]
    if cn == "EnumValue":
        return ["enum", node.value]
    if cn == "ListValue":
        return ["list", [lit_from_ast(v) for v in node.values]]
    if cn == "ObjectValue":
        return ["obj", [[f.name.value, lit_from_ast(f.value)] for f in node.fields]]
    raise Reject("not a constant literal: %s" % cn)


# ---------------------------------------------------------------------------------------------
# coercion

SPECIFIED = ("Int", "Float", "String", "Boolean", "ID")


def _coerce_scalar(name, lit):
    k = lit[0]
    if name == "Int":
        if k != "int":
            raise Reject("Int needs an IntValue")
        v = int(lit[1])
        if not (MIN_INT <= v <= MAX_INT):
            raise Reject("Int out of 32-bit range")
        return v
    if name == "Float":
        if k not in ("int", "float"):
            raise Reject("Float needs an IntValue or FloatValue")
        return float(lit[1])
    if name == "String":
        if k != "str":
            raise Reject("String needs a StringValue")
        return lit[1]
    if name == "Boolean":
        if k != "bool":
            raise Reject("Boolean needs a BooleanValue")
        return bool(lit[1])
    if name == "ID":
        if k == "str":
            return lit[1]
        if k == "int":
            return lit[1]
        raise Reject("ID needs a StringValue or IntValue")
    raise AssertionError(name)


def custom_scalar_value(impl, lit):
    """Custom scalars.

    impl None    -- the scalar build_schema makes for `scalar X` (and the plain code route's stand-in): the value of
                    a String literal is that string, of an Int / Float literal the literal's TEXT (the library keeps
                    node.value), of a Boolean literal the bool
    impl "typed" -- code-built pass-through scalar holding Python int / float / bool / str values; its external
                    (printed and rebuilt) form is the impl None reading of the same literal
    impl "date"  -- the scalar supplied through additional_types / code: value ("date", text), strings only
    """
    if impl == "date":
        if lit[0] != "str":
            raise Reject("Date literals other than String are outside the model")
        return ("date", lit[1])
    if lit[0] == "str":
        return lit[1]
    if lit[0] == "bool":
        return bool(lit[1])
    if lit[0] == "int":
        return int(lit[1]) if impl == "typed" else lit[1]
    if lit[0] == "float":
        return float(lit[1]) if impl == "typed" else lit[1]
    raise Reject("custom scalar literal kind %s is outside the model" % lit[0])


def coerce_literal(env, t, lit):
    if t[0] == "nn":
        if lit[0] == "null":
            raise Reject("null for non-null type")
        return coerce_literal(env, t[1], lit)
    if lit[0] == "null":
        return None
    if t[0] == "l":
        if lit[0] != "list":
            return [coerce_literal(env, t[1], lit)]
        return [coerce_literal(env, t[1], x) for x in lit[1]]
    name = t[1]
    if name in SPECIFIED and name not in env:
        return _coerce_scalar(name, lit)
    td = env.get(name)
    if td is None:
        raise Reject("unknown type %s" % name)
    kind = td["kind"]
    if kind == "scalar":
        return custom_scalar_value(td.get("impl"), lit)
    if kind == "enum":
        if lit[0] != "enum":
            raise Reject("enum needs an EnumValue")
        for v in td["values"]:
            if v["name"] == lit[1]:
                return v.get("value", v["name"])
        raise Reject("unknown enum value %s" % lit[1])
    if kind == "input":
        if lit[0] != "obj":
            raise Reject("input object needs an ObjectValue")
        given = {}
        for n, v in lit[1]:
            if n in given:
                raise Reject("duplicate field %s" % n)
            given[n] = v
        known = {f["name"] for f in td["fields"]}
        for n in given:
            if n not in known:
                raise Reject("unknown field %s" % n)
        out = {}
        for f in td["fields"]:
            key = f.get("python_name") or f["name"]
            if f["name"] in given:
                out[key] = coerce_literal(env, f["type"], given[f["name"]])
            elif f.get("default") is not None:
                out[key] = coerce_literal(env, f["type"], f["default"])
            elif f["type"][0] == "nn":
                raise Reject("missing required field %s" % f["name"])
        return out
    raise Reject("%s is not an input type" % name)


def canon_value(v):
    """JSON-able, type-preserving canonical form of a coerced value."""
    if v is None:
        return None
    if isinstance(v, bool):
        return ["b", v]
    if isinstance(v, int):
        return ["i", str(v)]
    if isinstance(v, float):
        return ["f", repr(v if v != 0 else 0.0)]  # exact value; -0.0 == 0.0 (IEEE equality)
    if isinstance(v, str):
        return ["s", v]
    if isinstance(v, tuple):
        return ["t", [canon_value(x) for x in v]]
    if isinstance(v, list):
        return ["l", [canon_value(x) for x in v]]
    if isinstance(v, dict):
        return ["d", [[k, canon_value(v[k])] for k in sorted(v)]]
    return ["?", type(v).__name__, repr(v)]


def canon_str(v):
    return json.dumps(canon_value(v), sort_keys=True, ensure_ascii=True)


# ---------------------------------------------------------------------------------------------


def selftest():
    assert T("[Int!]!") == ("nn", ("l", ("nn", ("n", "Int"))))
    assert tstr(T("[[A]]!")) == "[[A]]!"
    env = {
        "E": {"kind": "enum", "values": [{"name": "A", "value": 10}, {"name": "B"}]},
        "I": {
            "kind": "input",
            "fields": [
                {"name": "k", "type": T("Int"), "default": None},
                {"name": "j", "type": T("Int"), "default": ["int", "5"], "python_name": "jj"},
                {"name": "r", "type": T("I"), "default": None},
            ],
        },
    }
    c = coerce_literal
    assert c(env, T("Int"), ["int", "2147483647"]) == 2147483647
    assert c(env, T("Int"), ["int", "-2147483648"]) == -2147483648
    for bad in (["int", "2147483648"], ["float", "1.0"], ["str", "1"], ["bool", True]):
        try:
            c(env, T("Int"), bad)
        except Reject:
            pass
        else:
            raise AssertionError(bad)
    v = c(env, T("Float"), ["int", "2"])
    assert v == 2.0 and isinstance(v, float)
    assert c(env, T("ID"), ["int", "4"]) == "4"
    assert c(env, T("[Int]"), ["int", "1"]) == [1]
    assert c(env, T("[[Int]]"), ["int", "1"]) == [[1]]
    assert c(env, T("[Int]"), ["list", [["int", "1"], ["null"]]]) == [1, None]
    assert c(env, T("[Int]"), ["null"]) is None
    assert c(env, T("E"), ["enum", "A"]) == 10
    assert c(env, T("E"), ["enum", "B"]) == "B"
    assert c(env, T("I"), ["obj", [["k", ["int", "2"]]]]) == {"k": 2, "jj": 5}
    assert c(env, T("I"), ["obj", [["r", ["obj", []]]]]) == {"jj": 5, "r": {"jj": 5}}
    for t, bad in (
        (T("Int!"), ["null"]),
        (T("E"), ["str", "A"]),
        (T("E"), ["enum", "C"]),
        (T("I"), ["int", "1"]),
        (T("I"), ["obj", [["zz", ["int", "1"]]]]),
        (T("[Int!]"), ["list", [["null"]]]),
        (T("String"), ["enum", "A"]),
        (T("Boolean"), ["int", "1"]),
    ):
        try:
            c(env, t, bad)
        except Reject:
            pass
        else:
            raise AssertionError((t, bad))
    assert lit_to_text(["obj", [["a", ["list", [["int", "1"], ["str", 'q"\\\n']]]], ["b", ["enum", "X"]]]]) == '{a: [1, "q\\"\\\\\\n"], b: X}'
    assert canon_value(1) != canon_value(1.0) != canon_value(True)
