# -*- coding: utf-8 -*-
"""
The June-2018 GraphQL syntactic grammar (spec Appendix B.4 "Document") as *data*, plus a generic
Earley recogniser.  Nothing in the recogniser knows about GraphQL; nothing here imports py_gql.

Grammar notation (``GRAMMAR`` below), one rule per line, ``|`` separates alternatives:

    'x'        terminal: punctuator, or keyword (a Name token with exactly that value)
    Name Int Float String BlockString      token-class terminals
    NameNotOn        Name but not ``on``                       (FragmentName)
    EnumName         Name but not ``true`` ``false`` ``null``  (EnumValue)
    ExecLoc TsLoc    Name that is an Executable / TypeSystem DirectiveLocation
    X? X* X+         the spec's opt / list sugar (expanded to left-recursive helper rules)
    X<C>             the spec's [Const] parameter: every rule mentioning <C> is instantiated twice
    [~C] alt         alternative only present in the non-Const instance
    [TS] alt         alternative only present when allow_type_system is on
    [FV] / [~FV] alt alternative only present when experimental_fragment_variables is on / off
    !'{'             zero-width look-ahead restriction: the next token is not ``{``

Documented extensions over Appendix B (see DESIGN.md section 4.2):
  * ``VariableDefinition : Variable : Type DefaultValue? Directives[Const]?`` and the
    ``VARIABLE_DEFINITION`` executable directive location (py_gql CHANGES 0.5.0, spec PR 510);
  * ``FragmentDefinition : fragment FragmentName VariableDefinitions? TypeCondition ...`` when
    experimental_fragment_variables is on (Parser docstring);
  * greedy reading of the optional ``{ ... }`` blocks of type definitions / extensions: where the
    June-2018 context-free grammar is ambiguous between "definition without a block, followed by an
    anonymous query" and "definition with a block", the block reading is taken.  This is the
    ``[lookahead != {]`` restriction that later editions of the spec spell out for exactly these
    rules (editorial clarification of the behaviour of every implementation, part of the same RFC
    series 598-601 whose adoption CHANGES 0.5.0 documents).
"""

GRAMMAR = r"""
Document : Definition+
Definition : ExecutableDefinition | [TS] TypeSystemDefinition | [TS] TypeSystemExtension
ExecutableDefinition : OperationDefinition | FragmentDefinition
OperationDefinition : SelectionSet | OperationType Name? VariableDefinitions? Directives? SelectionSet
OperationType : 'query' | 'mutation' | 'subscription'
SelectionSet : '{' Selection+ '}'
Selection : Field | FragmentSpread | InlineFragment
Field : Alias? Name Arguments? Directives? SelectionSet?
Alias : Name ':'
Arguments<C> : '(' Argument<C>+ ')'
Argument<C> : Name ':' Value<C>
FragmentSpread : '...' FragmentName Directives?
InlineFragment : '...' TypeCondition? Directives? SelectionSet
FragmentDefinition : [~FV] 'fragment' FragmentName TypeCondition Directives? SelectionSet | [FV] 'fragment' FragmentName VariableDefinitions? TypeCondition Directives? SelectionSet
FragmentName : NameNotOn
TypeCondition : 'on' NamedType
Value<C> : [~C] Variable | Int | Float | StringValue | BooleanValue | NullValue | EnumValue | ListValue<C> | ObjectValue<C>
StringValue : String | BlockString
BooleanValue : 'true' | 'false'
NullValue : 'null'
EnumValue : EnumName
ListValue<C> : '[' ']' | '[' Value<C>+ ']'
ObjectValue<C> : '{' '}' | '{' ObjectField<C>+ '}'
ObjectField<C> : Name ':' Value<C>
VariableDefinitions : '(' VariableDefinition+ ')'
VariableDefinition : Variable ':' Type DefaultValue? DirectivesConst?
Variable : '$' Name
DefaultValue : '=' ValueConst
Type : NamedType | ListType | NonNullType
NamedType : Name
ListType : '[' Type ']'
NonNullType : NamedType '!' | ListType '!'
Directives<C> : Directive<C>+
Directive<C> : '@' Name Arguments<C>?
TypeSystemDefinition : SchemaDefinition | TypeDefinition | DirectiveDefinition
TypeSystemExtension : SchemaExtension | TypeExtension
SchemaDefinition : 'schema' DirectivesConst? '{' OperationTypeDefinition+ '}'
SchemaExtension : 'extend' 'schema' DirectivesConst? '{' OperationTypeDefinition+ '}' | 'extend' 'schema' DirectivesConst !'{'
OperationTypeDefinition : OperationType ':' NamedType
Description : StringValue
TypeDefinition : ScalarTypeDefinition | ObjectTypeDefinition | InterfaceTypeDefinition | UnionTypeDefinition | EnumTypeDefinition | InputObjectTypeDefinition
TypeExtension : ScalarTypeExtension | ObjectTypeExtension | InterfaceTypeExtension | UnionTypeExtension | EnumTypeExtension | InputObjectTypeExtension
ScalarTypeDefinition : Description? 'scalar' Name DirectivesConst?
ScalarTypeExtension : 'extend' 'scalar' Name DirectivesConst
ObjectTypeDefinition : Description? 'type' Name ImplementsInterfaces? DirectivesConst? FieldsDefinition | Description? 'type' Name ImplementsInterfaces? DirectivesConst? !'{'
ObjectTypeExtension : 'extend' 'type' Name ImplementsInterfaces? DirectivesConst? FieldsDefinition | 'extend' 'type' Name ImplementsInterfaces? DirectivesConst !'{' | 'extend' 'type' Name ImplementsInterfaces !'{'
ImplementsInterfaces : 'implements' '&'? NamedType | ImplementsInterfaces '&' NamedType
FieldsDefinition : '{' FieldDefinition+ '}'
FieldDefinition : Description? Name ArgumentsDefinition? ':' Type DirectivesConst?
ArgumentsDefinition : '(' InputValueDefinition+ ')'
InputValueDefinition : Description? Name ':' Type DefaultValue? DirectivesConst?
InterfaceTypeDefinition : Description? 'interface' Name DirectivesConst? FieldsDefinition | Description? 'interface' Name DirectivesConst? !'{'
InterfaceTypeExtension : 'extend' 'interface' Name DirectivesConst? FieldsDefinition | 'extend' 'interface' Name DirectivesConst !'{'
UnionTypeDefinition : Description? 'union' Name DirectivesConst? UnionMemberTypes?
UnionMemberTypes : '=' '|'? NamedType | UnionMemberTypes '|' NamedType
UnionTypeExtension : 'extend' 'union' Name DirectivesConst? UnionMemberTypes | 'extend' 'union' Name DirectivesConst
EnumTypeDefinition : Description? 'enum' Name DirectivesConst? EnumValuesDefinition | Description? 'enum' Name DirectivesConst? !'{'
EnumValuesDefinition : '{' EnumValueDefinition+ '}'
EnumValueDefinition : Description? EnumValue DirectivesConst?
EnumTypeExtension : 'extend' 'enum' Name DirectivesConst? EnumValuesDefinition | 'extend' 'enum' Name DirectivesConst !'{'
InputObjectTypeDefinition : Description? 'input' Name DirectivesConst? InputFieldsDefinition | Description? 'input' Name DirectivesConst? !'{'
InputFieldsDefinition : '{' InputValueDefinition+ '}'
InputObjectTypeExtension : 'extend' 'input' Name DirectivesConst? InputFieldsDefinition | 'extend' 'input' Name DirectivesConst !'{'
DirectiveDefinition : Description? 'directive' '@' Name ArgumentsDefinition? 'on' DirectiveLocations
DirectiveLocations : '|'? DirectiveLocation | DirectiveLocations '|' DirectiveLocation
DirectiveLocation : ExecLoc | TsLoc
"""

EXECUTABLE_DIRECTIVE_LOCATIONS = frozenset(
    "QUERY MUTATION SUBSCRIPTION FIELD FRAGMENT_DEFINITION FRAGMENT_SPREAD INLINE_FRAGMENT".split()
    + ["VARIABLE_DEFINITION"]  # extension, spec PR 510
)
TYPE_SYSTEM_DIRECTIVE_LOCATIONS = frozenset(
    "SCHEMA SCALAR OBJECT FIELD_DEFINITION ARGUMENT_DEFINITION INTERFACE UNION ENUM ENUM_VALUE "
    "INPUT_OBJECT INPUT_FIELD_DEFINITION".split()
)
PUNCTUATORS = ("!", "$", "(", ")", "...", ":", "=", "@", "[", "]", "{", "|", "}", "&")
TOKEN_CLASSES = ("Name", "Int", "Float", "String", "BlockString")
SPECIAL_NAME_TERMINALS = ("NameNotOn", "EnumName", "ExecLoc", "TsLoc")


def terminal_classes(kind, value):
    """The set of grammar terminals a token (kind, value) matches."""
    if kind != "Name":
        return frozenset((kind,))
    out = ["Name", "kw:" + value]
    if value != "on":
        out.append("NameNotOn")
    if value not in ("true", "false", "null"):
        out.append("EnumName")
    if value in EXECUTABLE_DIRECTIVE_LOCATIONS:
        out.append("ExecLoc")
    if value in TYPE_SYSTEM_DIRECTIVE_LOCATIONS:
        out.append("TsLoc")
    return frozenset(out)


# ------------------------------------------------------------------------------------------
# grammar text -> rules


def _parse_grammar(text, allow_ts, frag_vars):
    """-> dict nonterminal -> list of alternatives (tuples of symbols).

    Symbols in the result: nonterminal names; terminals ``'p`` (prefixed with a quote: punctuators),
    ``kw:xxx``, token classes / special name terminals; look-ahead ``!p``.
    """
    raw = {}
    for line in text.strip().splitlines():
        line = line.strip()
        if not line:
            continue
        lhs, rhs = line.split(" : ", 1)
        raw[lhs.strip()] = [alt.split() for alt in rhs.split(" | ")]

    rules = {}

    def sym(s, const):
        s = s.replace("<C>", "Const" if const else "")
        return s

    helpers = {}

    def conv_symbol(s):
        """one sugar-free symbol of the text -> internal symbol"""
        if s.startswith("!'"):
            return "!" + s[2:-1]
        if s.startswith("'"):
            body = s[1:-1]
            if body in PUNCTUATORS:
                return "'" + body
            return "kw:" + body
        return s

    def conv(s):
        suffix = s[-1] if s[-1] in "?*+" and not s.startswith("'") and not s.startswith("!") else ""
        if s.startswith("'") and len(s) > 3 and s[-1] in "?*+" and s[-2] == "'":
            suffix = s[-1]
        base = conv_symbol(s[: len(s) - len(suffix)] if suffix else s)
        if not suffix:
            return base
        name = "%s(%s)" % ({"?": "opt", "*": "star", "+": "plus"}[suffix], base)
        if name not in helpers:
            if suffix == "?":
                helpers[name] = [(), (base,)]
            elif suffix == "*":
                helpers[name] = [(), (name, base)]
            else:
                helpers[name] = [(base,), (name, base)]
        return name

    for lhs, alts in raw.items():
        variants = [False, True] if "<C>" in lhs else [False]
        for const in variants:
            out = []
            for alt in alts:
                alt = list(alt)
                keep = True
                while alt and alt[0].startswith("[") and alt[0].endswith("]"):
                    g = alt.pop(0)[1:-1]
                    if g == "~C":
                        keep = keep and not const
                    elif g == "TS":
                        keep = keep and allow_ts
                    elif g == "FV":
                        keep = keep and frag_vars
                    elif g == "~FV":
                        keep = keep and not frag_vars
                    else:
                        raise ValueError("unknown guard %r" % g)
                if not keep:
                    continue
                out.append(tuple(conv(sym(s, const)) for s in alt))
            rules[sym(lhs, const)] = out
    rules.update(helpers)
    return rules


class Grammar:
    """Compiled grammar: dotted-rule states as integers, predict table, nullable set."""

    def __init__(self, rules, starts):
        self.rules = rules
        self.nonterminals = set(rules)
        # sanity: every symbol is a nonterminal, a terminal or a look-ahead
        self.terminals = set()
        for lhs, alts in rules.items():
            for alt in alts:
                for s in alt:
                    if s in rules or s.startswith("!"):
                        continue
                    if s.startswith("'") or s.startswith("kw:") or s in TOKEN_CLASSES or s in SPECIAL_NAME_TERMINALS:
                        self.terminals.add(s[1:] if s.startswith("'") else s)
                        continue
                    raise ValueError("undefined symbol %r in rule %s" % (s, lhs))
        # reachable from the start symbols only (keeps "all nonterminals useful" checkable)
        reach = set()
        todo = list(starts)
        while todo:
            x = todo.pop()
            if x in reach:
                continue
            reach.add(x)
            for alt in rules[x]:
                for s in alt:
                    if s in rules and s not in reach:
                        todo.append(s)
        self.reachable = reach
        # nullable
        nullable = set()
        changed = True
        while changed:
            changed = False
            for lhs, alts in rules.items():
                if lhs in nullable:
                    continue
                for alt in alts:
                    if all((s in nullable) for s in alt):
                        nullable.add(lhs)
                        changed = True
                        break
        self.nullable = nullable
        # productive (every nonterminal derives some terminal string) -- needed for the claim
        # "non-empty Earley set <=> viable prefix"
        productive = set()
        changed = True
        while changed:
            changed = False
            for lhs, alts in rules.items():
                if lhs in productive:
                    continue
                for alt in alts:
                    if all((s not in rules) or (s in productive) for s in alt):
                        productive.add(lhs)
                        changed = True
                        break
        unproductive = [x for x in reach if x not in productive]
        if unproductive:
            raise ValueError("unproductive nonterminals: %r" % unproductive)
        # dotted states
        self.state_lhs = []
        self.state_next = []  # symbol after the dot or None
        self.state_kind = []  # 0 complete, 1 nonterminal, 2 terminal, 3 look-ahead
        self.state_repr = []
        self.rule_start = {}  # lhs -> list of initial state ids
        for lhs in sorted(rules):
            self.rule_start[lhs] = []
            for alt in rules[lhs]:
                self.rule_start[lhs].append(len(self.state_lhs))
                for dot in range(len(alt) + 1):
                    self.state_lhs.append(lhs)
                    self.state_repr.append("%s -> %s . %s" % (lhs, " ".join(alt[:dot]), " ".join(alt[dot:])))
                    if dot == len(alt):
                        self.state_next.append(None)
                        self.state_kind.append(0)
                    else:
                        s = alt[dot]
                        if s in rules:
                            self.state_next.append(s)
                            self.state_kind.append(1)
                        elif s.startswith("!"):
                            self.state_next.append(s[1:])
                            self.state_kind.append(3)
                        else:
                            self.state_next.append(s[1:] if s.startswith("'") else s)
                            self.state_kind.append(2)


_ORIGIN_BITS = 24
_ORIGIN_MASK = (1 << _ORIGIN_BITS) - 1


class Column:
    __slots__ = ("items", "seen", "waiting", "scannable", "parked")

    def __init__(self):
        self.items = []  # item = state << 24 | origin
        self.seen = set()
        self.waiting = {}  # nonterminal -> [items of this column waiting for it]
        self.scannable = []  # items with a terminal after the dot
        self.parked = []  # items with a look-ahead restriction after the dot

    def copy(self):
        c = Column()
        c.items = list(self.items)
        c.seen = set(self.seen)
        c.waiting = {k: list(v) for k, v in self.waiting.items()}
        c.scannable = list(self.scannable)
        c.parked = list(self.parked)
        return c


class Recogniser:
    """
    Incremental Earley recogniser.  A *chart* is a tuple of Columns; charts are persistent values:
    ``push(chart, classes)`` returns a new chart (sharing the old columns) or ``None`` when the
    extended token sequence is not a viable prefix.  ``accepts(chart)`` tells whether the token
    sequence read so far is a sentence.
    """

    def __init__(self, grammar, start):
        self.g = grammar
        self.start = start
        c = Column()
        self._add_all(c, [(s << _ORIGIN_BITS) | 0 for s in grammar.rule_start[start]], (), 0)
        self.initial = (c,)

    # -- closure of one column -------------------------------------------------------------
    def _add_all(self, col, new_items, chart, index):
        """add items to column ``index`` (== len(chart)) and close under predict / complete."""
        g = self.g
        kind = g.state_kind
        nxt = g.state_next
        lhs_of = g.state_lhs
        nullable = g.nullable
        seen = col.seen
        items = col.items
        todo = []
        for it in new_items:
            if it not in seen:
                seen.add(it)
                items.append(it)
                todo.append(it)
        while todo:
            it = todo.pop()
            st = it >> _ORIGIN_BITS
            k = kind[st]
            if k == 2:
                col.scannable.append(it)
            elif k == 3:
                col.parked.append(it)
            elif k == 1:
                x = nxt[st]
                w = col.waiting.get(x)
                if w is None:
                    col.waiting[x] = [it]
                    for s0 in g.rule_start[x]:
                        n = (s0 << _ORIGIN_BITS) | index
                        if n not in seen:
                            seen.add(n)
                            items.append(n)
                            todo.append(n)
                else:
                    w.append(it)
                if x in nullable:
                    n = it + (1 << _ORIGIN_BITS)
                    if n not in seen:
                        seen.add(n)
                        items.append(n)
                        todo.append(n)
            else:  # complete
                origin = it & _ORIGIN_MASK
                x = lhs_of[st]
                ocol = col if origin == index else chart[origin]
                for w in list(ocol.waiting.get(x, ())):
                    n = w + (1 << _ORIGIN_BITS)
                    if n not in seen:
                        seen.add(n)
                        items.append(n)
                        todo.append(n)

    def _resolve(self, chart, classes):
        """resolve the parked look-ahead items of the last column against the next token
        (``classes`` = its terminal classes, empty at end of input); returns the chart to scan from."""
        last = chart[-1]
        if not last.parked:
            return chart
        nxt = self.g.state_next
        col = last.copy()
        parked, col.parked = col.parked, []
        base = chart[:-1]
        index = len(base)
        while parked:
            adv = [it + (1 << _ORIGIN_BITS) for it in parked if nxt[it >> _ORIGIN_BITS] not in classes]
            self._add_all(col, adv, base, index)
            parked, col.parked = col.parked, []
        return base + (col,)

    def push(self, chart, classes):
        chart = self._resolve(chart, classes)
        last = chart[-1]
        nxt = self.g.state_next
        adv = [it + (1 << _ORIGIN_BITS) for it in last.scannable if nxt[it >> _ORIGIN_BITS] in classes]
        if not adv:
            return None
        col = Column()
        self._add_all(col, adv, chart, len(chart))
        return chart + (col,)

    def accepts(self, chart):
        chart = self._resolve(chart, frozenset())
        last = chart[-1]
        kind = self.g.state_kind
        lhs_of = self.g.state_lhs
        for it in last.items:
            if (it & _ORIGIN_MASK) == 0 and kind[it >> _ORIGIN_BITS] == 0 and lhs_of[it >> _ORIGIN_BITS] == self.start:
                return True
        return False

    def expected(self, chart):
        """terminals that may come next (ignoring look-ahead restrictions), for diagnostics."""
        chart2 = self._resolve(chart, frozenset())
        nxt = self.g.state_next
        return sorted({nxt[it >> _ORIGIN_BITS] for it in chart2[-1].scannable})

    def signature(self, chart):
        """identity of the last column as far as the *future* is concerned: its incomplete items
        (completed items have already had their effect inside the column).  Valid for comparing
        one-token extensions of one common prefix (they share all earlier columns)."""
        kind = self.g.state_kind
        return frozenset(it for it in chart[-1].items if kind[it >> _ORIGIN_BITS] != 0)

    # -- whole-sequence convenience --------------------------------------------------------
    def run(self, token_classes):
        """-> (accepted, index of the first token at which the prefix stops being viable or None)."""
        chart = self.initial
        for i, cl in enumerate(token_classes):
            chart = self.push(chart, cl)
            if chart is None:
                return False, i
        return self.accepts(chart), None


_CACHE = {}
_GRAMMARS = {}


def compiled(allow_ts=False, frag_vars=False):
    key = (bool(allow_ts), bool(frag_vars))
    g = _GRAMMARS.get(key)
    if g is None:
        rules = _parse_grammar(GRAMMAR, key[0], key[1])
        g = _GRAMMARS[key] = Grammar(rules, ["Document", "Value", "Type"])
    return g


def recogniser(start, allow_ts=False, frag_vars=False):
    """Recogniser for any nonterminal as start symbol (the entry points use Document, Value, Type;
    the violation classifier asks about single constructs such as InlineFragment)."""
    key = (start, bool(allow_ts), bool(frag_vars))
    r = _CACHE.get(key)
    if r is None:
        r = _CACHE[key] = Recogniser(compiled(allow_ts, frag_vars), start)
    return r


def classes_of(tokens):
    """[(kind, start, end, value)] (reference lexer output) -> list of terminal-class sets"""
    return [terminal_classes(t[0], t[3]) for t in tokens]


def accepts_text(text, start, allow_ts=False, frag_vars=False):
    from . import lexer

    toks, err = lexer.lex(text)
    if err is not None:
        return False
    ok, _ = recogniser(start, allow_ts, frag_vars).run(classes_of(toks))
    return ok


# ------------------------------------------------------------------------------------------

_ACCEPT_EXEC = [
    "{a}",
    "{ a b c }",
    "query { a }",
    "query Q { a }",
    "query on { on }",
    "query query { query }",
    "mutation { a }",
    "subscription S { a }",
    "{ a: b }",
    "{ a(x: 1) }",
    "{ a(x: 1, y: $v) @d(z: [1 2.0 \"s\" true null E {k: $v}]) { b } }",
    "query ($a: Int) { a }",
    "query Q($a: [Int!]! = [1] @d(x: 1), $b: B = {k: 1}) @e { a }",
    "{ ...F }",
    "{ ... { a } }",
    "{ ... on T { a } }",
    "{ ... @d { a } }",
    "{ ...F @d }",
    "{ ... on on { a } }",
    "{ ...true }",
    "fragment F on T { a }",
    "fragment F on T @d { a }",
    "fragment fragment on on { a }",
    "{ a(x: true) }",
    "{ a(x: on) }",
    "{ a(x: []) }",
    "{ a(x: {}) }",
    "{ a(x: \"\"\"b\"\"\") }",
    "{a} {b}",
    "{ a { b { c } } }",
]
_REJECT_EXEC = [
    "",
    "{}",
    "{ a",
    "a",
    "query",
    "query Q",
    "query ()  { a }",
    "{ a() }",
    "{ a(x: ) }",
    "{ ...on }",
    "{ ... on }",
    "{ ... on T }",
    "fragment on on T { a }",
    "fragment F { a }",
    "fragment F on T",
    "fragment F($a: Int) on T { a }",
    "query ($a: Int = $b) { a }",
    "query ($a: Int @d(x: $b)) { a }",
    "{ a(x: [) }",
    "{ a: }",
    "{ a @ }",
    "{ a(x: {k}) }",
    "{ a(x: ...) }",
    "type A { a: Int }",
    "scalar A",
    "extend scalar A @d",
    "\"d\" type A",
    "{ a } }",
    "{ a(x: $) }",
    "query ($a: [Int) { a }",
    "query ($a: Int!!) { a }",
    "query ($a) { a }",
    "query Q Q { a }",
]
_ACCEPT_TS = _ACCEPT_EXEC + [
    "schema { query: Q }",
    "schema @d { query: Q mutation: M }",
    "scalar A",
    "scalar A @d(x: 1)",
    "\"d\" scalar A",
    "\"\"\"d\"\"\" scalar A",
    "type A",
    "type A { a: Int }",
    "type A implements B { a: Int }",
    "type A implements & B & C @d { a(x: Int = 1 @d): [Int!]! @e }",
    "type A implements B",
    "type A @d",
    "type A { \"d\" a(\"d\" x: Int): Int }",
    "interface I",
    "interface I @d { a: Int }",
    "union U",
    "union U = A",
    "union U @d = | A | B",
    "enum E",
    "enum E { A B }",
    "enum E @d { \"d\" A @d B }",
    "input I",
    "input I { a: Int = 1 @d }",
    "directive @d on QUERY",
    "directive @d(x: Int = 1) on | QUERY | FIELD_DEFINITION",
    "directive @d on VARIABLE_DEFINITION",
    "\"d\" directive @d on ENUM_VALUE",
    "extend schema @d",
    "extend schema { query: Q }",
    "extend schema @d { query: Q }",
    "extend scalar A @d",
    "extend type A { a: Int }",
    "extend type A implements B",
    "extend type A implements B @d",
    "extend type A @d",
    "extend interface I { a: Int }",
    "extend interface I @d",
    "extend union U = A",
    "extend union U = | A | B",
    "extend union U @d",
    "extend enum E { A }",
    "extend enum E @d",
    "extend input I { a: Int }",
    "extend input I @d",
    "type A type B",
    "type A \"implements\" type B",
    "type A query { a }",
    "scalar A { a }",
    "union U = A { a }",
    "scalar A \"d\" scalar B",
    "type type { type: type }",
    "enum enum { enum }",
    "input input { input: input = input }",
]
_REJECT_TS = [
    "",
    "schema",
    "schema {}",
    "schema { a: Q }",
    "schema { query Q }",
    "\"d\" schema { query: Q }",
    "scalar",
    "scalar A B",
    "type A {}",
    "type A { a }",
    "type A implements",
    "type A implements B C { a: Int }",
    "type A implements B, C extra",
    "type A implements B & { a: Int }",
    "type A \"implements\" B { a: Int }",
    "interface I implements J { a: Int }",
    "interface I { a }",
    "interface I {}",
    "union U =",
    "union U = A |",
    "enum E {}",
    "enum E { true }",
    "enum E { false }",
    "enum E { null }",
    "enum E { A: B }",
    "input I {}",
    "input I { a }",
    "input I { a(x: Int): Int }",
    "input I { a: Int = $v }",
    "directive @d",
    "directive @d on",
    "directive @d on NOWHERE",
    "directive @d repeatable on QUERY",
    "directive d on QUERY",
    "directive @d() on QUERY",
    "extend schema",
    "extend schema {}",
    "extend scalar A",
    "extend type A",
    "extend interface I",
    "extend union U",
    "extend enum E",
    "extend input I",
    "extend",
    "extend directive @d on QUERY",
    "extend A",
    "\"d\" extend type A @d",
    "\"d\"",
    "\"d\" { a }",
    "\"d\" query { a }",
    "type A @d(x: $v)",
    "type A { a: Int = 1 }",
    "type A { a: Int } }",
    "enum E { A } { a: }",
    "interface I @d { a }",
    "extend type A @d { a }",
    "extend enum E @d { a: b }",
    "input I @d { a }",
]


def selftest(fixture_dir="/repo/tests/fixtures"):
    import os

    from . import lexer

    lexer.selftest()
    for t in _ACCEPT_EXEC:
        assert accepts_text(t, "Document", False, False), ("exec should accept", t)
        assert accepts_text(t, "Document", True, False), ("ts should accept", t)
    for t in _REJECT_EXEC:
        assert not accepts_text(t, "Document", False, False), ("exec should reject", t)
    for t in _ACCEPT_TS:
        assert accepts_text(t, "Document", True, False), ("ts should accept", t)
        assert accepts_text(t, "Document", True, True), ("ts+fv should accept", t)
    for t in _REJECT_TS:
        assert not accepts_text(t, "Document", True, False), ("ts should reject", t)
        assert not accepts_text(t, "Document", True, True), ("ts+fv should reject", t)
    assert accepts_text("fragment F($a: Int = 1 @d) on T { a }", "Document", False, True)
    assert accepts_text("fragment F on T { a }", "Document", False, True)
    assert not accepts_text("fragment F() on T { a }", "Document", False, True)
    assert not accepts_text("fragment F($a: Int) on T { a }", "Document", True, False)
    for t in ["1", "-1.5e3", '"s"', '"""b"""', "true", "null", "E", "on", "$v", "[1 [2] $v]", "{a: {b: $v}}", "[]", "{}", "query"]:
        assert accepts_text(t, "Value"), ("value", t)
    for t in ["", "1 2", "[", "{a}", "{a:}", "$", "$1", "@d", "...", "!", "[1,", "{a: 1"]:
        assert not accepts_text(t, "Value"), ("not value", t)
    for t in ["A", "[A]", "A!", "[A!]!", "[[A]]", "on", "true"]:
        assert accepts_text(t, "Type"), ("type", t)
    for t in ["", "A!!", "[A", "[]", "!", "A B", "[A]]", "1", "$a", "[!]"]:
        assert not accepts_text(t, "Type"), ("not type", t)
    # viable-prefix answers
    r = recogniser("Document", True, False)

    def viable(text):
        toks, err = lexer.lex(text)
        assert err is None
        chart = r.initial
        for cl in classes_of(toks):
            chart = r.push(chart, cl)
            if chart is None:
                return False
        return True

    assert viable("{ a ( x : [ 1")
    assert viable("type A implements B &")
    assert viable("extend schema")
    assert not viable("{ }")
    assert not viable("{ ... \"on\"")
    assert not viable("type A { a }")
    assert viable("type A { a")
    # the project's own fixtures
    if os.path.isdir(fixture_dir):
        for name, ts in (
            ("kitchen-sink.graphql", False),
            ("schema-kitchen-sink.graphql", True),
            ("introspection-schema.graphql", True),
        ):
            p = os.path.join(fixture_dir, name)
            if os.path.exists(p):
                with open(p, encoding="utf-8") as f:
                    src = f.read()
                assert accepts_text(src, "Document", ts, False), ("fixture rejected by reference grammar", name)
