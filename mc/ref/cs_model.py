# -*- coding: utf-8 -*-
"""
cs_model -- a small plain-data schema model for the "code schema" checks (C13, C14, C20).

A schema model ``SM`` is JSON-able data, completely independent of py_gql:

    SM    := {"types": [TDEF...], "directives": [DDEF...],
              "roots": {"query": name|None, "mutation": name|None, "subscription": name|None},
              "default_resolver": tag|None}
    TDEF  := {"kind": "object",    "name", "desc", "interfaces": [name], "fields": [FDEF], "default_resolver": tag|None}
           | {"kind": "interface", "name", "desc", "fields": [FDEF], "resolve_type": tag|None}
           | {"kind": "union",     "name", "desc", "members": [name], "resolve_type": tag|None}
           | {"kind": "enum",      "name", "desc", "values": [{"name", "desc", "dep": str|None, "value"?}]}
           | {"kind": "input",     "name", "desc", "fields": [IDEF]}
           | {"kind": "scalar",    "name", "desc"}
    FDEF  := {"name", "type": TEXPR, "args": [IDEF], "desc", "dep": str|None,
              "resolver": tag|None, "sub": tag|None, "pyname": str|None}
    IDEF  := {"name", "type": TEXPR, "desc", "pyname": str|None, ["default": JSON value]}
             (the key "default" is present iff there is a default; ``None`` is the null default;
              enum-typed defaults are the enum value *name*)
    DDEF  := {"name", "desc", "locations": [str], "args": [IDEF]}
    TEXPR := SDL type syntax as a string: "Int", "[Int!]!", ...

Provided here (all own code):

    parse_type / type_str / named / wrapper helpers
    norm(sm)               fill in every optional key (so that dict equality is structural equality)
    canon(sm)              norm + types and directives sorted by name (definition-order independent)
    to_sdl(sm, order)      SDL emitter (definitions in the given order)
    build_code(sm, order)  builds the schema through the py_gql.schema constructors (lazy references)
    build_sdl(sm, order)   py_gql.build_schema(to_sdl(...)) + resolvers registered through the API
    dump(schema)           extractor: py_gql Schema -> SM (norm form, schema.types order)
    identity_facts(schema) list of reference sites whose named type ``is not`` schema.types[name]
    resolver tags          "sig:<python parameter list>" -> function with that signature, cached
"""
import copy
import re

SPECIFIED_SCALARS = ("Int", "Float", "String", "Boolean", "ID")
KINDS = ("object", "interface", "union", "enum", "input", "scalar")

# ------------------------------------------------------------------------------------------
# type expressions


def parse_type(s):
    """'[Int!]!' -> ('nn', ('l', ('nn', ('n', 'Int'))))"""
    s = s.strip()
    pos = [0]

    def rec():
        if pos[0] < len(s) and s[pos[0]] == "[":
            pos[0] += 1
            inner = rec()
            if pos[0] >= len(s) or s[pos[0]] != "]":
                raise ValueError(s)
            pos[0] += 1
            t = ("l", inner)
        else:
            m = re.compile(r"[^\[\]!]*").match(s, pos[0])
            pos[0] = m.end()
            t = ("n", m.group(0))
        if pos[0] < len(s) and s[pos[0]] == "!":
            pos[0] += 1
            t = ("nn", t)
        return t

    t = rec()
    if pos[0] != len(s):
        raise ValueError(s)
    return t


def type_str(t):
    if t[0] == "n":
        return t[1]
    if t[0] == "l":
        return "[%s]" % type_str(t[1])
    return type_str(t[1]) + "!"


def named(texpr):
    """innermost type name of a type expression (string or tuple)."""
    t = parse_type(texpr) if isinstance(texpr, str) else texpr
    while t[0] != "n":
        t = t[1]
    return t[1]


def rewrap(texpr, name):
    """same wrappers around another name."""
    t = parse_type(texpr)

    def rec(t):
        if t[0] == "n":
            return ("n", name)
        return (t[0], rec(t[1]))

    return type_str(rec(t))


def wrapper_of(texpr):
    """wrapper shape with the name abstracted to T: '[Int!]!' -> '[T!]!'"""
    return rewrap(texpr, "T")


def wrappers(max_lists):
    """all wrapper shapes with at most ``max_lists`` list levels, simplest first."""
    out = []

    def rec(depth):
        if depth == 0:
            return ["T", "T!"]
        res = []
        for inner in rec(depth - 1):
            res.append("[%s]" % inner)
            res.append("[%s]!" % inner)
        return res

    for d in range(max_lists + 1):
        out.extend(rec(d))
    return out


def apply_wrapper(w, name):
    return w.replace("T", name)


# ------------------------------------------------------------------------------------------
# model helpers


def F(name, type_, args=(), **kw):
    d = {"name": name, "type": type_, "args": [copy.deepcopy(a) for a in args]}
    d.update(kw)
    return d


def A(name, type_, *default, **kw):
    d = {"name": name, "type": type_}
    if default:
        d["default"] = default[0]
    d.update(kw)
    return d


def T(kind, name, **kw):
    d = {"kind": kind, "name": name}
    d.update(kw)
    return d


def V(name, **kw):
    d = {"name": name}
    d.update(kw)
    return d


def _norm_idef(a):
    out = {"name": a["name"], "type": a["type"], "desc": a.get("desc"), "pyname": a.get("pyname")}
    if "default" in a:
        out["default"] = a["default"]
    return out


def _norm_fdef(f):
    return {
        "name": f["name"],
        "type": f["type"],
        "args": [_norm_idef(a) for a in f.get("args") or ()],
        "desc": f.get("desc"),
        "dep": f.get("dep"),
        "resolver": f.get("resolver"),
        "sub": f.get("sub"),
        "pyname": f.get("pyname"),
    }


def _norm_tdef(t):
    k = t["kind"]
    out = {"kind": k, "name": t["name"], "desc": t.get("desc")}
    if k == "object":
        out["interfaces"] = list(t.get("interfaces") or ())
        out["fields"] = [_norm_fdef(f) for f in t.get("fields") or ()]
        out["default_resolver"] = t.get("default_resolver")
    elif k == "interface":
        out["fields"] = [_norm_fdef(f) for f in t.get("fields") or ()]
        out["resolve_type"] = t.get("resolve_type")
    elif k == "union":
        out["members"] = list(t.get("members") or ())
        out["resolve_type"] = t.get("resolve_type")
    elif k == "enum":
        vals = []
        for v in t.get("values") or ():
            vals.append({"name": v["name"], "desc": v.get("desc"), "dep": v.get("dep"), "value": v.get("value", v["name"])})
        out["values"] = vals
    elif k == "input":
        out["fields"] = [_norm_idef(f) for f in t.get("fields") or ()]
    elif k == "scalar":
        pass
    else:
        raise ValueError(k)
    return out


def norm(sm):
    roots = sm.get("roots") or {}
    return {
        "types": [_norm_tdef(t) for t in sm.get("types") or ()],
        "directives": [
            {
                "name": d["name"],
                "desc": d.get("desc"),
                "locations": list(d.get("locations") or ()),
                "args": [_norm_idef(a) for a in d.get("args") or ()],
            }
            for d in sm.get("directives") or ()
        ],
        "roots": {k: roots.get(k) for k in ("query", "mutation", "subscription")},
        "default_resolver": sm.get("default_resolver"),
    }


def canon(sm):
    n = norm(sm)
    n["types"].sort(key=lambda t: t["name"])
    n["directives"].sort(key=lambda d: d["name"])
    return n


def get_type(sm, name):
    for t in sm["types"]:
        if t["name"] == name:
            return t
    return None


def kind_of(sm, name):
    if name in SPECIFIED_SCALARS:
        return "scalar"
    t = get_type(sm, name)
    return t["kind"] if t else None


def type_names(sm):
    return [t["name"] for t in sm["types"]]


def ordered(sm, order):
    """copy of sm with its types listed in the order given by the index list ``order``."""
    if order is None:
        return sm
    out = dict(sm)
    out["types"] = [sm["types"][i] for i in order]
    return out


def strip_runtime(sm):
    """copy of norm(sm) without anything SDL cannot carry (resolvers, python names, enum values)."""
    n = norm(sm)
    n["default_resolver"] = None
    for t in n["types"]:
        for key in ("default_resolver", "resolve_type"):
            if key in t:
                t[key] = None
        for f in t.get("fields") or ():
            f["pyname"] = None
            if "resolver" in f:
                f["resolver"] = None
                f["sub"] = None
            for a in f.get("args") or ():
                a["pyname"] = None
        for v in t.get("values") or ():
            v["value"] = v["name"]
    for d in n["directives"]:
        for a in d["args"]:
            a["pyname"] = None
    return n


# ------------------------------------------------------------------------------------------
# SDL emitter


def _sdl_string(s):
    return '"' + s.replace("\\", "\\\\").replace('"', '\\"').replace("\n", "\\n") + '"'


def _sdl_desc(d, indent=""):
    if d is None:
        return ""
    return indent + _sdl_string(d) + "\n"


def sdl_value(sm, texpr, v):
    """literal text of JSON value ``v`` at type ``texpr`` (enum defaults are names)."""
    t = parse_type(texpr) if isinstance(texpr, str) else texpr
    if v is None:
        return "null"
    if t[0] == "nn":
        return sdl_value(sm, t[1], v)
    if t[0] == "l":
        if isinstance(v, list):
            return "[" + ", ".join(sdl_value(sm, t[1], x) for x in v) + "]"
        return sdl_value(sm, t[1], v)
    name = t[1]
    k = kind_of(sm, name)
    if k == "enum":
        return str(v)
    if k == "input":
        td = get_type(sm, name)
        ft = {f["name"]: f["type"] for f in td["fields"]}
        return "{" + ", ".join("%s: %s" % (key, sdl_value(sm, ft.get(key, "String"), val)) for key, val in v.items()) + "}"
    if isinstance(v, bool):
        return "true" if v else "false"
    if isinstance(v, (int, float)):
        return repr(v)
    if isinstance(v, str):
        return _sdl_string(v)
    if isinstance(v, list):
        return "[" + ", ".join(sdl_value(sm, ("n", name), x) for x in v) + "]"
    if isinstance(v, dict):
        return "{" + ", ".join("%s: %s" % (key, sdl_value(sm, ("n", "String"), val)) for key, val in v.items()) + "}"
    raise ValueError(v)


def _sdl_dep(dep):
    if dep is None:
        return ""
    if dep == "No longer supported":
        return " @deprecated"
    return " @deprecated(reason: %s)" % _sdl_string(dep)


def _sdl_idef(sm, a):
    s = ""
    if a.get("desc") is not None:
        s += _sdl_string(a["desc"]) + " "
    s += "%s: %s" % (a["name"], a["type"])
    if "default" in a:
        s += " = " + sdl_value(sm, a["type"], a["default"])
    return s


def _sdl_fdef(sm, f):
    s = _sdl_desc(f.get("desc"), "  ")
    s += "  " + f["name"]
    if f.get("args"):
        s += "(" + ", ".join(_sdl_idef(sm, a) for a in f["args"]) + ")"
    s += ": " + f["type"] + _sdl_dep(f.get("dep")) + _sdl_applied(f)
    return s


def _sdl_applied(x):
    """raw directive applications ('@remove', '@rename(to: "x")'), SDL only, not part of the dump."""
    return "".join(" " + a for a in x.get("applied") or ())


def sdl_typedef(sm, t):
    k = t["kind"]
    s = _sdl_desc(t.get("desc"))
    if k in ("object", "interface"):
        s += ("type " if k == "object" else "interface ") + t["name"]
        if k == "object" and t.get("interfaces"):
            s += " implements " + " & ".join(t["interfaces"])
        s += _sdl_applied(t)
        if t.get("fields"):
            s += " {\n" + "\n".join(_sdl_fdef(sm, f) for f in t["fields"]) + "\n}"
    elif k == "union":
        s += "union " + t["name"]
        if t.get("members"):
            s += " = " + " | ".join(t["members"])
    elif k == "enum":
        s += "enum " + t["name"]
        if t.get("values"):
            s += " {\n"
            for v in t["values"]:
                s += _sdl_desc(v.get("desc"), "  ") + "  " + v["name"] + _sdl_dep(v.get("dep")) + "\n"
            s += "}"
    elif k == "input":
        s += "input " + t["name"]
        if t.get("fields"):
            s += " {\n" + "\n".join(_sdl_desc(f.get("desc"), "  ") + "  " + _sdl_idef(sm, dict(f, desc=None)) for f in t["fields"]) + "\n}"
    elif k == "scalar":
        s += "scalar " + t["name"]
    return s


def sdl_directive(sm, d):
    s = _sdl_desc(d.get("desc")) + "directive @" + d["name"]
    if d.get("args"):
        s += "(" + ", ".join(_sdl_idef(sm, a) for a in d["args"]) + ")"
    s += " on " + " | ".join(d["locations"])
    return s


def needs_schema_block(sm):
    roots = sm.get("roots") or {}
    default = {"query": "Query", "mutation": "Mutation", "subscription": "Subscription"}
    for op, dn in default.items():
        r = roots.get(op)
        if r is not None and r != dn:
            return True
        if r is None and kind_of(sm, dn) == "object":
            return True  # a type called Mutation exists but is not the mutation root
    return bool(sm.get("explicit_schema"))


def to_sdl(sm, order=None):
    sm2 = ordered(sm, order)
    parts = []
    if needs_schema_block(sm):
        roots = sm.get("roots") or {}
        parts.append(
            "schema {\n"
            + "".join("  %s: %s\n" % (op, roots[op]) for op in ("query", "mutation", "subscription") if roots.get(op))
            + "}"
        )
    for d in sm.get("directives") or ():
        parts.append(sdl_directive(sm, d))
    for t in sm2["types"]:
        parts.append(sdl_typedef(sm, t))
    return "\n\n".join(parts) + "\n"


# ------------------------------------------------------------------------------------------
# resolver tags

_FN_CACHE = {}


def fn_for(tag):
    """
    tag -> python callable, one object per tag (so identity can be checked after transforms).

    "sig:<params>"   a function ``def f(<params>)`` returning a recognisable value
    "tr:<typename>"  a type resolver returning that type name
    """
    if tag is None:
        return None
    if tag in _FN_CACHE:
        return _FN_CACHE[tag]
    if tag.startswith("sig:"):
        params = tag[4:].split("#")[0]
        ns = {}
        exec("def _resolver(%s):\n    return _value(%r, locals())" % (params, tag), {"_value": _resolver_value}, ns)
        fn = ns["_resolver"]
    elif tag.startswith("tr:"):
        tn = tag[3:].split("#")[0]

        def fn(value, ctx=None, info=None, _tn=tn):
            return _tn

    elif tag.startswith("sub:"):

        def fn(root, ctx, info, **kw):
            raise NotImplementedError("subscription resolvers are never executed by these checks")

    else:
        raise ValueError(tag)
    fn.__name__ = "cs_" + re.sub(r"[^0-9A-Za-z]+", "_", tag)
    fn._cs_tag = tag
    _FN_CACHE[tag] = fn
    return fn


def _resolver_value(tag, local_vars):
    """what tagged resolvers return: looks the field up on the root value like the default resolver."""
    root = None
    info = None
    vals = list(local_vars.values())
    if vals:
        root = vals[0]
    for v in vals:
        if hasattr(v, "field_definition"):
            info = v
    if info is not None and isinstance(root, dict):
        return root.get(info.field_definition.name)
    if info is not None and root is not None:
        # not one of our dictionaries (e.g. introspection values): behave like the stock resolver
        from py_gql.execution.default_resolver import default_resolver

        kw = {k: v for k, v in local_vars.items() if k not in ("root", "ctx", "info", "kw")}
        kw.update(local_vars.get("kw") or {})
        return default_resolver(root, local_vars.get("ctx"), info, **kw)
    return None


def tag_of(fn):
    if fn is None:
        return None
    t = getattr(fn, "_cs_tag", None)
    if t is not None:
        return t
    return "<other:%s>" % getattr(fn, "__name__", type(fn).__name__)


OK = "sig:root, ctx, info, **kw"


# ------------------------------------------------------------------------------------------
# building real schemas


def py_default(sm, texpr, v):
    """python value handed to the constructors for a model default (enum name -> internal value)."""
    t = parse_type(texpr) if isinstance(texpr, str) else texpr
    if v is None:
        return None
    if t[0] == "nn":
        return py_default(sm, t[1], v)
    if t[0] == "l":
        if isinstance(v, list):
            return [py_default(sm, t[1], x) for x in v]
        return py_default(sm, t[1], v)
    name = t[1]
    k = kind_of(sm, name)
    if k == "enum":
        td = get_type(sm, name)
        for ev in td.get("values") or ():
            if ev["name"] == v:
                return ev.get("value", ev["name"])
        return v
    if k == "input" and isinstance(v, dict):
        td = get_type(sm, name)
        fts = {f["name"]: f for f in td["fields"]}
        out = {}
        for key, val in v.items():
            f = fts.get(key)
            out[(f.get("pyname") or key) if f else key] = py_default(sm, f["type"], val) if f else val
        return out
    return v


def build_code(sm, order=None, eager=False):
    """
    Build the py_gql schema of ``sm`` through the constructors.  All references are lazy thunks
    (so recursive types work) unless ``eager``.  ``order`` permutes the list handed to
    ``Schema(types=[...])``.  Nothing is validated here.
    """
    from py_gql import schema as S

    registry = {}
    specified = {"Int": S.Int, "Float": S.Float, "String": S.String, "Boolean": S.Boolean, "ID": S.ID}

    def lookup(name):
        if name in registry:
            return registry[name]
        if name in specified:
            return specified[name]
        raise KeyError("unknown type %r in model" % name)

    def mk(t):
        if t[0] == "n":
            return lookup(t[1])
        if t[0] == "l":
            return S.ListType(mk(t[1]))
        return S.NonNullType(mk(t[1]))

    def ref(texpr):
        parsed = parse_type(texpr)
        if eager:
            return mk(parsed)
        return lambda: mk(parsed)

    def idef(cls, a):
        kw = {}
        if "default" in a:
            kw["default_value"] = py_default(sm, a["type"], a["default"])
        return cls(a["name"], ref(a["type"]), description=a.get("desc"), python_name=a.get("pyname"), **kw)

    def fdef(f):
        return S.Field(
            f["name"],
            ref(f["type"]),
            args=[idef(S.Argument, a) for a in f.get("args") or ()],
            description=f.get("desc"),
            deprecation_reason=f.get("dep"),
            resolver=fn_for(f.get("resolver")),
            subscription_resolver=fn_for(f.get("sub")),
            python_name=f.get("pyname"),
        )

    def names_ref(names):
        if eager:
            return [lookup(n) for n in names]
        return lambda: [lookup(n) for n in names]

    for t in sm["types"]:
        k = t["kind"]
        if k == "object":
            obj = S.ObjectType(
                t["name"],
                [fdef(f) for f in t.get("fields") or ()],
                interfaces=names_ref(list(t.get("interfaces") or ())),
                default_resolver=fn_for(t.get("default_resolver")),
                description=t.get("desc"),
            )
        elif k == "interface":
            obj = S.InterfaceType(
                t["name"],
                [fdef(f) for f in t.get("fields") or ()],
                resolve_type=fn_for(t.get("resolve_type")),
                description=t.get("desc"),
            )
        elif k == "union":
            obj = S.UnionType(
                t["name"],
                names_ref(list(t.get("members") or ())),
                resolve_type=fn_for(t.get("resolve_type")),
                description=t.get("desc"),
            )
        elif k == "enum":
            obj = S.EnumType(
                t["name"],
                [
                    S.EnumValue(v["name"], v.get("value", v["name"]), deprecation_reason=v.get("dep"), description=v.get("desc"))
                    for v in t.get("values") or ()
                ],
                description=t.get("desc"),
            )
        elif k == "input":
            obj = S.InputObjectType(t["name"], [idef(S.InputField, f) for f in t.get("fields") or ()], description=t.get("desc"))
        elif k == "scalar":
            obj = S.ScalarType(t["name"], serialize=_ident, parse=_ident, description=t.get("desc"))
        else:
            raise ValueError(k)
        registry[t["name"]] = obj

    directives = [
        S.Directive(d["name"], list(d["locations"]), args=[idef(S.Argument, a) for a in d.get("args") or ()], description=d.get("desc"))
        for d in sm.get("directives") or ()
    ]
    roots = sm.get("roots") or {}
    idx = list(order) if order is not None else list(range(len(sm["types"])))
    schema = S.Schema(
        query_type=registry.get(roots.get("query")) if roots.get("query") else None,
        mutation_type=registry.get(roots.get("mutation")) if roots.get("mutation") else None,
        subscription_type=registry.get(roots.get("subscription")) if roots.get("subscription") else None,
        types=[registry[sm["types"][i]["name"]] for i in idx],
        directives=directives,
    )
    if sm.get("default_resolver"):
        schema.default_resolver = fn_for(sm["default_resolver"])
    return schema


def _ident(x):
    return x


def build_sdl(sm, order=None, attach=True):
    """build_schema(to_sdl(sm)); runtime attributes are attached through the documented API."""
    from py_gql import build_schema

    schema = build_schema(to_sdl(sm, order))
    if attach:
        attach_runtime(schema, sm)
    return schema


def attach_runtime(schema, sm):
    """resolvers / type resolvers / python names of the model, set through public API / attributes."""
    for t in sm["types"]:
        obj = schema.types.get(t["name"])
        if obj is None:
            continue
        if t["kind"] == "object":
            if t.get("default_resolver"):
                schema.register_default_resolver(t["name"], fn_for(t["default_resolver"]))
        if t["kind"] in ("interface", "union") and t.get("resolve_type"):
            obj.resolve_type = fn_for(t["resolve_type"])
        if t["kind"] in ("object", "interface"):
            fm = obj.field_map
            for f in t.get("fields") or ():
                fo = fm.get(f["name"])
                if fo is None:
                    continue
                if f.get("resolver") and t["kind"] == "object":
                    schema.register_resolver(t["name"], f["name"], fn_for(f["resolver"]))
                elif f.get("resolver"):
                    fo.resolver = fn_for(f["resolver"])
                if f.get("sub") and t["kind"] == "object":
                    schema.register_subscription(t["name"], f["name"], fn_for(f["sub"]))
                if f.get("pyname"):
                    fo.python_name = f["pyname"]
                am = fo.argument_map
                for a in f.get("args") or ():
                    if a.get("pyname") and a["name"] in am:
                        am[a["name"]].python_name = a["pyname"]
        if t["kind"] == "input":
            fm = obj.field_map
            for f in t.get("fields") or ():
                if f.get("pyname") and f["name"] in fm:
                    fm[f["name"]].python_name = f["pyname"]
    if sm.get("default_resolver"):
        schema.default_resolver = fn_for(sm["default_resolver"])
    return schema


# ------------------------------------------------------------------------------------------
# extractor


def _texpr(t):
    from py_gql.schema import ListType, NonNullType

    if isinstance(t, NonNullType):
        return _texpr(t.type) + "!"
    if isinstance(t, ListType):
        return "[%s]" % _texpr(t.type)
    return getattr(t, "name", repr(t))


def _json_default(type_, v):
    """python default value -> model value (enum internal value -> name), best effort, JSON-able."""
    from py_gql.schema import EnumType, InputObjectType, ListType, NonNullType

    if v is None:
        return None
    if isinstance(type_, NonNullType):
        return _json_default(type_.type, v)
    if isinstance(type_, ListType):
        if isinstance(v, (list, tuple)):
            return [_json_default(type_.type, x) for x in v]
        return _json_default(type_.type, v)
    if isinstance(type_, EnumType):
        try:
            return type_.get_name(v)
        except Exception:
            return "<not-an-enum-value:%r>" % (v,)
    if isinstance(type_, InputObjectType) and isinstance(v, dict):
        by_py = {}
        for f in type_.fields:
            by_py[f.python_name] = f
            by_py.setdefault(f.name, f)
        out = {}
        for key, val in v.items():
            f = by_py.get(key)
            out[f.name if f else key] = _json_default(f.type, val) if f else val
        return out
    if isinstance(v, (bool, int, float, str)):
        return v
    if isinstance(v, (list, tuple)):
        return [_json_default(type_, x) for x in v]
    if isinstance(v, dict):
        return {str(k): _json_default(type_, x) for k, x in v.items()}
    return repr(v)


def _dump_idef(a):
    out = {
        "name": a.name,
        "type": _texpr(a.type),
        "desc": a.description,
        "pyname": (a.python_name if a.python_name != a.name else None),
    }
    if a.has_default_value:
        out["default"] = _json_default(a.type, a._default_value)
    return out


def _dump_fdef(f):
    return {
        "name": f.name,
        "type": _texpr(f.type),
        "args": [_dump_idef(a) for a in f.arguments],
        "desc": f.description,
        "dep": f.deprecation_reason if f.deprecated or f.deprecation_reason is not None else None,
        "resolver": tag_of(f.resolver),
        "sub": tag_of(f.subscription_resolver),
        "pyname": (f.python_name if f.python_name != f.name else None),
    }


def is_builtin(schema_type):
    from py_gql.schema import SPECIFIED_SCALAR_TYPES
    from py_gql.schema.introspection import INTROPSPECTION_TYPES

    return schema_type in SPECIFIED_SCALAR_TYPES or schema_type in INTROPSPECTION_TYPES


def dump(schema):
    """py_gql Schema -> SM in norm() form, types in schema.types order, custom directives only."""
    from py_gql import schema as S

    types = []
    for name, t in schema.types.items():
        if is_builtin(t):
            continue
        if isinstance(t, S.ObjectType):
            d = {
                "kind": "object",
                "name": t.name,
                "desc": t.description,
                "interfaces": [getattr(i, "name", repr(i)) for i in t.interfaces],
                "fields": [_dump_fdef(f) for f in t.fields],
                "default_resolver": tag_of(t.default_resolver),
            }
        elif isinstance(t, S.InterfaceType):
            d = {
                "kind": "interface",
                "name": t.name,
                "desc": t.description,
                "fields": [_dump_fdef(f) for f in t.fields],
                "resolve_type": tag_of(t.resolve_type),
            }
        elif isinstance(t, S.UnionType):
            d = {
                "kind": "union",
                "name": t.name,
                "desc": t.description,
                "members": [getattr(m, "name", repr(m)) for m in t.types],
                "resolve_type": tag_of(t.resolve_type),
            }
        elif isinstance(t, S.EnumType):
            d = {
                "kind": "enum",
                "name": t.name,
                "desc": t.description,
                "values": [
                    {
                        "name": v.name,
                        "desc": v.description,
                        "dep": v.deprecation_reason if v.deprecated else None,
                        "value": v.value if isinstance(v.value, (str, int, float, bool, type(None))) else repr(v.value),
                    }
                    for v in t.values
                ],
            }
        elif isinstance(t, S.InputObjectType):
            d = {"kind": "input", "name": t.name, "desc": t.description, "fields": [_dump_idef(f) for f in t.fields]}
        elif isinstance(t, S.ScalarType):
            d = {"kind": "scalar", "name": t.name, "desc": t.description}
        else:
            d = {"kind": "?" + type(t).__name__, "name": name, "desc": None}
        if d["name"] != name:
            d["registered_as"] = name
        types.append(d)
    directives = []
    for name, d in schema.directives.items():
        if d in S.SPECIFIED_DIRECTIVES:
            continue
        directives.append({"name": d.name, "desc": d.description, "locations": list(d.locations), "args": [_dump_idef(a) for a in d.arguments]})
    return {
        "types": types,
        "directives": directives,
        "roots": {
            "query": getattr(schema.query_type, "name", None),
            "mutation": getattr(schema.mutation_type, "name", None),
            "subscription": getattr(schema.subscription_type, "name", None),
        },
        "default_resolver": tag_of(schema.default_resolver),
    }


def identity_facts(schema):
    """
    Every reference site whose innermost named type is not the object registered under its name.
    Returns a sorted list of (site kind, site description, problem).
    """
    from py_gql import schema as S

    bad = []

    def check(kind, where, type_):
        try:
            inner = S.unwrap_type(type_)
        except Exception as e:  # noqa
            bad.append((kind, where, "unwrap raises %s" % type(e).__name__))
            return
        name = getattr(inner, "name", None)
        reg = schema.types.get(name)
        if reg is None:
            bad.append((kind, where, "references unregistered type %s" % name))
        elif reg is not inner:
            bad.append((kind, where, "references a different %s object than schema.types[%r]" % (type(inner).__name__, name)))

    for name, t in schema.types.items():
        if name.startswith("__"):
            continue
        if t.name != name:
            bad.append(("registry", name, "registered type is called %s" % t.name))
        if isinstance(t, (S.ObjectType, S.InterfaceType)):
            for f in t.fields:
                check("field", "%s.%s" % (name, f.name), f.type)
                for a in f.arguments:
                    check("argument", "%s.%s(%s)" % (name, f.name, a.name), a.type)
        if isinstance(t, S.ObjectType):
            for i in t.interfaces:
                check("interface", "%s implements %s" % (name, getattr(i, "name", "?")), i)
        if isinstance(t, S.UnionType):
            for m in t.types:
                check("union-member", "%s | %s" % (name, getattr(m, "name", "?")), m)
        if isinstance(t, S.InputObjectType):
            for f in t.fields:
                check("input-field", "%s.%s" % (name, f.name), f.type)
    for dname, d in schema.directives.items():
        for a in d.arguments:
            check("directive-argument", "@%s(%s)" % (dname, a.name), a.type)
    for op in ("query", "mutation", "subscription"):
        r = getattr(schema, op + "_type")
        if r is not None:
            check("root", op, r)
    # derived indexes
    for iname, impls in schema.implementations.items():
        for o in impls:
            if schema.types.get(o.name) is not o:
                bad.append(("implementations-index", "%s<-%s" % (iname, o.name), "stale object in schema.implementations"))
    for name, t in schema.types.items():
        if isinstance(t, S.ObjectType):
            for i in t.interfaces:
                iname = getattr(i, "name", None)
                if t not in schema.implementations.get(iname, []):
                    bad.append(("implementations-index", "%s<-%s" % (iname, name), "missing from schema.implementations"))
    for iname in schema.implementations:
        if schema.implementations[iname] and iname not in schema.types:
            bad.append(("implementations-index", iname, "entry for a type that is not registered"))
    # lazily filled caches must only hold registered objects and agree with a fresh computation
    for key, members in getattr(schema, "_possible_types", {}).items():
        kname = getattr(key, "name", "?")
        if schema.types.get(kname) is not key:
            bad.append(("possible-types-cache", kname, "cache key is not the registered type object"))
            continue
        fresh = key.types if isinstance(key, S.UnionType) else schema.implementations.get(kname, [])
        if [id(x) for x in members] != [id(x) for x in fresh or []]:
            bad.append(("possible-types-cache", kname, "cached members differ from the registered ones"))
    for node, t in getattr(schema, "_literal_types_cache", {}).items():
        try:
            inner = S.unwrap_type(t)
        except Exception:  # noqa
            continue
        if schema.types.get(getattr(inner, "name", None)) is not inner:
            bad.append(("literal-types-cache", getattr(inner, "name", "?"), "cached type is not the registered object"))
    return sorted(bad)


def derived_state(schema):
    """JSON-able digest of what the structural dump does not show: derived indexes, registries, memo."""
    from py_gql.exc import SchemaValidationError
    from py_gql.schema.validation import validate_schema

    out = {
        "implementations": {k: sorted(o.name for o in v) for k, v in sorted(schema.implementations.items()) if v},
        "resolvers": sorted((tn, fn, tag_of(r)) for tn, d in schema.resolvers.items() for fn, r in d.items()),
        "subscriptions": sorted((tn, fn, tag_of(r)) for tn, d in schema.subscriptions.items() for fn, r in d.items()),
        "default_resolvers": sorted((tn, tag_of(r)) for tn, r in schema.default_resolvers.items()),
        "is_valid": schema._is_valid,
        "memo": "ok",
    }
    if schema._is_valid:
        try:
            validate_schema(schema)
        except SchemaValidationError as e:
            out["memo"] = "stale: memo says valid, fresh validation says %s" % str(e)[:120]
        except Exception as e:  # noqa
            out["memo"] = "fresh validation raises %s" % type(e).__name__
    return out
