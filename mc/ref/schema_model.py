# -*- coding: utf-8 -*-
"""
Plain-data schema model (DESIGN 4.5) and the independent functions around it.

A *schema model* SM is what the generators (mc/gen/schemas.py) produce:

    SM = {
      "types": [TYPE, ...],                 definition order = canonical document order
      "directives": [DIRECTIVE, ...],
      "roots": {"query": name, "mutation": name|None, "subscription": name|None},
      "schema_def": bool,                   emit an explicit `schema { ... }`
      "schema_applied": [APPLIED, ...],
    }
    TYPE  = {"name", "kind": object|interface|union|enum|input|scalar, "description", "applied": [...],
             object:    "interfaces": [name], "fields": [FIELD]
             interface: "fields": [FIELD]
             union:     "members": [name]
             enum:      "values": [{"name","description","deprecation","applied","value"?}]   value = internal value
             input:     "fields": [IVAL]
             scalar:    "impl": None|"date"}
    FIELD = {"name","description","type": texpr,"args":[IVAL],"deprecation","applied"}
    IVAL  = {"name","description","type": texpr,"default": None|literal,"python_name": None|str,"applied"}
    DIRECTIVE = {"name","description","locations":[str],"args":[IVAL]}
    deprecation = None | {"reason": None}  (bare @deprecated) | {"reason": "text"}
    APPLIED = [directive name, [[arg, literal], ...]]
    texpr / literal: see coerce_lit.py

The *normal form* NSM is what is compared: produced from an SM by `sm_expected` (defaults coerced by the
reference coercion) and from a live py_gql schema by `sm_from_schema` (walks public attributes only).

    NSM = {"types": {name: {...}}, "directives": {name: {...}}, "roots": {...}}

Functions (each independent of the others and of py_gql's printer / builder):
    sm_to_sdl(SM, order, split, ...)   own SDL emitter; permutes definitions, splits members over `extend`
    sm_split_expected(SM, split)       the SM the split document declares (members in document order)
    sm_to_code(SM)                     the same schema through the py_gql.schema constructors
    sm_from_schema(schema)             -> (NSM, identity facts that are false)
    sm_from_introspection(data)        -> introspection-shaped NSM (see that function)
    sm_diff(expected, got)             -> [(element.attribute, path, expected, got)]
"""
import copy

from .coerce_lit import (
    SPECIFIED,
    Reject,
    T,
    _quote,
    canon_value,
    coerce_literal,
    lit_to_text,
    tname,
    tstr,
)

DEFAULT_DEPRECATION = "No longer supported"
BUILTIN_DIRECTIVES = ("include", "skip", "deprecated")

__all__ = [
    "T",
    "tstr",
    "mk_type",
    "mk_field",
    "mk_ival",
    "sm_new",
    "sm_env",
    "sm_expected",
    "sm_to_sdl",
    "sm_split_expected",
    "sm_to_code",
    "sm_from_schema",
    "sm_from_introspection",
    "sm_diff",
    "sm_element",
    "coerce_unwrapped",
    "wrap_canon",
    "text_change_facet",
    "default_detail",
    "sm_violations",
    "sm_type",
    "sm_units",
    "member_keys",
    "tname",
]

# ---------------------------------------------------------------------------------------------
# constructors


def mk_ival(name, type_, default=None, description=None, python_name=None, applied=None):
    return {
        "name": name,
        "description": description,
        "type": T(type_) if isinstance(type_, str) else type_,
        "default": default,
        "python_name": python_name,
        "applied": list(applied or []),
    }


def mk_field(name, type_, args=None, description=None, deprecation=None, applied=None):
    return {
        "name": name,
        "description": description,
        "type": T(type_) if isinstance(type_, str) else type_,
        "args": list(args or []),
        "deprecation": deprecation,
        "applied": list(applied or []),
    }


def mk_type(kind, name, description=None, **kw):
    t = {"name": name, "kind": kind, "description": description, "applied": []}
    if kind == "object":
        t["interfaces"] = list(kw.pop("interfaces", []))
        t["fields"] = list(kw.pop("fields", []))
    elif kind == "interface":
        t["fields"] = list(kw.pop("fields", []))
    elif kind == "union":
        t["members"] = list(kw.pop("members", []))
    elif kind == "enum":
        vals = []
        for v in kw.pop("values", []):
            if isinstance(v, str):
                v = {"name": v}
            v = dict(v)
            v.setdefault("description", None)
            v.setdefault("deprecation", None)
            v.setdefault("applied", [])
            vals.append(v)
        t["values"] = vals
    elif kind == "input":
        t["fields"] = list(kw.pop("fields", []))
    elif kind == "scalar":
        t["impl"] = kw.pop("impl", None)
    else:
        raise ValueError(kind)
    assert not kw, kw
    return t


def sm_new():
    return {
        "types": [],
        "directives": [],
        "roots": {"query": None, "mutation": None, "subscription": None},
        "schema_def": False,
        "schema_applied": [],
    }


def sm_type(sm, name):
    for t in sm["types"]:
        if t["name"] == name:
            return t
    return None


def sm_env(sm):
    return {t["name"]: t for t in sm["types"]}


# ---------------------------------------------------------------------------------------------
# expected normal form


def _n_dep(dep):
    if dep is None:
        return False, None
    r = dep.get("reason")
    return True, (DEFAULT_DEPRECATION if r is None else r)


def _n_ival(env, iv):
    out = {
        "name": iv["name"],
        "description": iv["description"],
        "type": tstr(iv["type"]),
        "has_default": iv["default"] is not None,
        "default": None,
        "python_name": iv.get("python_name") or iv["name"],
    }
    if iv["default"] is not None:
        out["default"] = canon_value(coerce_literal(env, iv["type"], iv["default"]))
    return out


def _n_field(env, f):
    d, r = _n_dep(f["deprecation"])
    return {
        "name": f["name"],
        "description": f["description"],
        "type": tstr(f["type"]),
        "args": [_n_ival(env, a) for a in f["args"]],
        "deprecated": d,
        "reason": r,
    }


def sm_expected(sm):
    """SM -> NSM (raises coerce_lit.Reject if a default literal does not fit its type)."""
    env = sm_env(sm)
    types = {}
    for t in sm["types"]:
        k = t["kind"]
        n = {"kind": k, "description": t["description"]}
        if k in ("object", "interface"):
            n["fields"] = [_n_field(env, f) for f in t["fields"]]
        if k == "object":
            n["interfaces"] = list(t["interfaces"])
        if k == "union":
            n["members"] = list(t["members"])
        if k == "enum":
            vals = []
            for v in t["values"]:
                d, r = _n_dep(v["deprecation"])
                vals.append(
                    {
                        "name": v["name"],
                        "description": v["description"],
                        "deprecated": d,
                        "reason": r,
                        "value": canon_value(v.get("value", v["name"])),
                    }
                )
            n["values"] = vals
        if k == "input":
            n["fields"] = [_n_ival(env, f) for f in t["fields"]]
        types[t["name"]] = n
    # possible types of abstract types
    for t in sm["types"]:
        if t["kind"] == "interface":
            types[t["name"]]["possible"] = sorted(
                o["name"] for o in sm["types"] if o["kind"] == "object" and t["name"] in o["interfaces"]
            )
        elif t["kind"] == "union":
            types[t["name"]]["possible"] = sorted(t["members"])
    directives = {}
    for d in sm["directives"]:
        directives[d["name"]] = {
            "description": d["description"],
            "locations": list(d["locations"]),
            "args": [_n_ival(env, a) for a in d["args"]],
        }
    return {"types": types, "directives": directives, "roots": dict(sm["roots"])}


# ---------------------------------------------------------------------------------------------
# SDL emitter (own code)


def block_ok(desc):
    """Can `desc` be written as a block string whose BlockStringValue() is exactly `desc`?"""
    if desc == "" or any(c in desc for c in "\r\x0b\x0c\x1c\x1d\x1e\x85\u2028\u2029"):
        return False  # (only LF is used as line terminator inside our block strings: lexer subtleties are C02's)
    lines = desc.split("\n")
    if lines[0].strip(" \t") == "" or lines[-1].strip(" \t") == "":
        return False
    if lines[0][0] in " \t":
        # the first line does not take part in the common indent but is not stripped either: fine in
        # the spec, but then the text must start right after the opening quotes; keep it simple.
        return False
    for ln in lines[1:]:
        if ln.strip(" \t") != "" and ln[0] not in " \t":
            return True
    # every later non-blank line is indented (or there is none): the common indent would eat it
    return all(ln.strip(" \t") == "" for ln in lines[1:])


def emit_description(desc, indent, style="auto"):
    """-> text ending in a newline, or '' when there is no description."""
    if desc is None:
        return ""
    use_block = style == "block" or (style == "auto" and "\n" in desc)
    if use_block and block_ok(desc):
        out = [indent + '"""']
        for ln in desc.split("\n"):
            out.append((indent + ln.replace('"""', '\\"""')) if ln != "" else "")
        out.append(indent + '"""')
        return "\n".join(out) + "\n"
    return indent + _quote(desc) + "\n"


def _emit_applied(applied):
    out = []
    for name, args in applied or ():
        if args:
            out.append("@%s(%s)" % (name, ", ".join("%s: %s" % (a, lit_to_text(v)) for a, v in args)))
        else:
            out.append("@" + name)
    return out


def _emit_dep(dep):
    if dep is None:
        return []
    if dep.get("reason") is None:
        return ["@deprecated"]
    return ["@deprecated(reason: %s)" % _quote(dep["reason"])]


def _dirs(dep, applied, applied_first=False):
    a, b = _emit_dep(dep), _emit_applied(applied)
    parts = (b + a) if applied_first else (a + b)
    return (" " + " ".join(parts)) if parts else ""


def _emit_ival(iv, indent, style, inline):
    s = "%s: %s" % (iv["name"], tstr(iv["type"]))
    if iv["default"] is not None:
        s += " = " + lit_to_text(iv["default"])
    s += _dirs(None, iv.get("applied"))
    if inline:
        d = emit_description(iv["description"], "", style)
        return (d.rstrip("\n") + " " if d and "\n" not in d.rstrip("\n") else d) + s
    return emit_description(iv["description"], indent, style) + indent + s


def _emit_args(args, indent, style):
    if not args:
        return ""
    if any(a["description"] is not None for a in args):
        inner = indent + "  "
        return "(\n" + "\n".join(_emit_ival(a, inner, style, False) for a in args) + "\n" + indent + ")"
    return "(" + ", ".join(_emit_ival(a, "", style, True) for a in args) + ")"


def _emit_field(f, indent, style, applied_first):
    return (
        emit_description(f["description"], indent, style)
        + indent
        + f["name"]
        + _emit_args(f["args"], indent, style)
        + ": "
        + tstr(f["type"])
        + _dirs(f["deprecation"], f.get("applied"), applied_first)
    )


def _emit_enum_value(v, indent, style, applied_first):
    return emit_description(v["description"], indent, style) + indent + v["name"] + _dirs(v["deprecation"], v.get("applied"), applied_first)


_KW = {"object": "type", "interface": "interface", "union": "union", "enum": "enum", "input": "input", "scalar": "scalar"}


def _emit_type_block(t, members, ext, style, applied_first, with_applied=True):
    """One definition (ext=False) or extension (ext=True) block with the given member keys."""
    k = t["kind"]
    head = ("extend " if ext else "") + _KW[k] + " " + t["name"]
    desc = "" if ext else emit_description(t["description"], "", style)
    applied = _dirs(None, t.get("applied")) if (with_applied and not ext) else ""
    keyset = set(members)
    ind = "  "
    if k in ("object", "interface"):
        if k == "object":
            ifs = [m[2:] for m in members if m.startswith("i:")]
            if ifs:
                head += " implements " + " & ".join(ifs)
        head += applied
        fs = [f for f in t["fields"] if ("f:" + f["name"]) in keyset]
        # keep the order given by `members`
        fs.sort(key=lambda f: members.index("f:" + f["name"]))
        if fs:
            head += " {\n" + "\n".join(_emit_field(f, ind, style, applied_first) for f in fs) + "\n}"
        return desc + head
    if k == "union":
        head += applied
        ms = [m for m in members if m.startswith("m:")]
        if ms:
            head += " = " + " | ".join(m[2:] for m in ms)
        return desc + head
    if k == "enum":
        head += applied
        vs = [v for v in t["values"] if ("v:" + v["name"]) in keyset]
        vs.sort(key=lambda v: members.index("v:" + v["name"]))
        if vs:
            head += " {\n" + "\n".join(_emit_enum_value(v, ind, style, applied_first) for v in vs) + "\n}"
        return desc + head
    if k == "input":
        head += applied
        fs = [f for f in t["fields"] if ("f:" + f["name"]) in keyset]
        fs.sort(key=lambda f: members.index("f:" + f["name"]))
        if fs:
            head += " {\n" + "\n".join(_emit_ival(f, ind, style, False) for f in fs) + "\n}"
        return desc + head
    if k == "scalar":
        return desc + head + applied
    raise ValueError(k)


def member_keys(t):
    k = t["kind"]
    if k == "object":
        return ["i:" + i for i in t["interfaces"]] + ["f:" + f["name"] for f in t["fields"]]
    if k in ("interface", "input"):
        return ["f:" + f["name"] for f in t["fields"]]
    if k == "union":
        return ["m:" + m for m in t["members"]]
    if k == "enum":
        return ["v:" + v["name"] for v in t["values"]]
    return []


def _emit_directive(d, style):
    s = emit_description(d["description"], "", style) + "directive @" + d["name"] + _emit_args(d["args"], "", style)
    return s + " on " + " | ".join(d["locations"])


def _root_ops(sm):
    return [(op, sm["roots"][op]) for op in ("query", "mutation", "subscription") if sm["roots"][op]]


def sm_units(sm):
    """Canonical list of definition units: ("schema",) first if explicit, directives, types."""
    units = []
    if sm["schema_def"]:
        units.append(["schema"])
    for d in sm["directives"]:
        units.append(["directive", d["name"]])
    for t in sm["types"]:
        units.append(["type", t["name"]])
    return units


def sm_to_sdl(sm, order=None, split=None, style="auto", applied_first=False, parts=False, base_only=False):
    """Emit SDL.

    order  permutation (list of indices into sm_units(sm)) or None
    split  {type name | "schema": {"blocks": [[member key, ...], ...], "place": "after"|"before"|"end"|"start"}}
           blocks[0] = members kept in the definition, blocks[1:] = one `extend` block each (document
           order); for "schema" the member keys are operation names.
    parts  return (base_text, extension_text) instead of one document (two-step route)
    base_only  leave the extension blocks out
    """
    split = split or {}
    units = sm_units(sm)
    order = list(order) if order is not None else list(range(len(units)))
    assert sorted(order) == list(range(len(units))), order
    env = sm_env(sm)
    body, head_ext, tail_ext = [], [], []
    for idx in order:
        u = units[idx]
        if u[0] == "schema":
            ops = _root_ops(sm)
            sp = split.get("schema")
            blocks = sp["blocks"] if sp else [[op for op, _ in ops]]
            place = sp["place"] if sp else "after"
            base = "schema" + _dirs(None, sm.get("schema_applied")) + " {\n" + "\n".join("  %s: %s" % (op, sm["roots"][op]) for op in blocks[0]) + "\n}"
            exts = ["extend schema {\n" + "\n".join("  %s: %s" % (op, sm["roots"][op]) for op in b) + "\n}" for b in blocks[1:]]
        elif u[0] == "directive":
            d = [d for d in sm["directives"] if d["name"] == u[1]][0]
            base, exts, place = _emit_directive(d, style), [], "after"
        else:
            t = env[u[1]]
            sp = split.get(u[1])
            blocks = sp["blocks"] if sp else [member_keys(t)]
            place = sp["place"] if sp else "after"
            base = _emit_type_block(t, blocks[0], False, style, applied_first)
            exts = [_emit_type_block(t, b, True, style, applied_first) for b in blocks[1:]]
        if place == "after":
            body.append(("b", base))
            body.extend(("e", e) for e in exts)
        elif place == "before":
            body.extend(("e", e) for e in exts)
            body.append(("b", base))
        elif place == "end":
            body.append(("b", base))
            tail_ext.extend(("e", e) for e in exts)
        elif place == "start":
            body.append(("b", base))
            head_ext.extend(("e", e) for e in exts)
        else:
            raise ValueError(place)
    allp = head_ext + body + tail_ext
    if parts:
        return (
            "\n\n".join(x for k, x in allp if k == "b") + "\n",
            "\n\n".join(x for k, x in allp if k == "e") + "\n",
        )
    if base_only:
        allp = [p for p in allp if p[0] == "b"]
    return "\n\n".join(x for _, x in allp) + "\n"


def sm_split_expected(sm, split, base_only=False):
    """The SM declared by the split document: members of a split type in block order."""
    out = copy.deepcopy(sm)
    for name, sp in (split or {}).items():
        blocks = sp["blocks"][:1] if base_only else sp["blocks"]
        keys = [k for b in blocks for k in b]
        if name == "schema":
            for op in ("query", "mutation", "subscription"):
                if op not in keys:
                    out["roots"][op] = None
            continue
        t = sm_type(out, name)
        k = t["kind"]
        if k == "object":
            t["interfaces"] = [x[2:] for x in keys if x.startswith("i:")]
        if k in ("object", "interface", "input"):
            by = {f["name"]: f for f in t["fields"]}
            t["fields"] = [by[x[2:]] for x in keys if x.startswith("f:")]
        if k == "union":
            t["members"] = [x[2:] for x in keys if x.startswith("m:")]
        if k == "enum":
            by = {v["name"]: v for v in t["values"]}
            t["values"] = [by[x[2:]] for x in keys if x.startswith("v:")]
    return out


# ---------------------------------------------------------------------------------------------
# code route


def _date_parse(v):
    if not isinstance(v, str):
        raise ValueError("Date must be a string")
    return ("date", v)


def _date_serialize(v):
    if isinstance(v, tuple) and len(v) == 2 and v[0] == "date":
        return v[1]
    raise ValueError("not a date value: %r" % (v,))


def _date_parse_literal(node, _variables=None):
    if type(node).__name__ != "StringValue":
        raise ValueError("Date literal must be a string")
    return ("date", node.value)


def code_scalar(name, impl, description=None):
    from py_gql.schema import ScalarType

    if impl == "date":
        return ScalarType(name, serialize=_date_serialize, parse=_date_parse, parse_literal=_date_parse_literal, description=description)
    if impl == "typed":
        return ScalarType(name, serialize=lambda v: v, parse=lambda v: v, parse_literal=_typed_parse_literal, description=description)
    return ScalarType(name, serialize=lambda v: v, parse=lambda v: v, parse_literal=lambda node, _v=None: node.value, description=description)


def _typed_parse_literal(node, _variables=None):
    """kind-faithful pass-through: Int -> int, Float -> float, Boolean -> bool, String -> str"""
    k = type(node).__name__
    if k == "IntValue":
        return int(node.value)
    if k == "FloatValue":
        return float(node.value)
    return node.value


def code_enum(t):
    from py_gql.schema import EnumType, EnumValue

    vals = []
    for v in t["values"]:
        d, r = _n_dep(v["deprecation"])
        vals.append(EnumValue(v["name"], value=v.get("value", v["name"]), deprecation_reason=r, description=v["description"]))
    return EnumType(t["name"], vals, description=t["description"])


def _default_resolver(root, ctx, info, **args):
    if isinstance(root, dict):
        return root.get(info.field_definition.name)
    return getattr(root, info.field_definition.name, None)


def reorder_keys(v, how):
    """Same value, dict keys in another insertion order (recursively, also inside lists)."""
    if isinstance(v, dict):
        ks = list(v)
        if how == "reversed":
            ks = ks[::-1]
        elif how == "rotated":
            ks = ks[1:] + ks[:1]
        return {k: reorder_keys(v[k], how) for k in ks}
    if isinstance(v, list):
        return [reorder_keys(x, how) for x in v]
    return v


def coerce_unwrapped(env, t, lit):
    """Like coerce_literal, but a single value standing for a list is NOT wrapped (what a programmer may pass as
    `default_value` of a list-typed argument: list input coercion accepts a single item)."""
    if t[0] == "nn":
        return coerce_unwrapped(env, t[1], lit)
    if lit[0] == "null":
        return None
    if t[0] == "l":
        if lit[0] != "list":
            return coerce_unwrapped(env, t[1], lit)
        return [coerce_unwrapped(env, t[1], x) for x in lit[1]]
    return coerce_literal(env, t, lit)


def wrap_canon(canon, t):
    """canonical value -> the same with single values wrapped into lists as the type demands."""
    if t[0] == "nn":
        return wrap_canon(canon, t[1])
    if canon is None:
        return None
    if t[0] == "l":
        if canon[0] != "l":
            return ["l", [wrap_canon(canon, t[1])]]
        return ["l", [wrap_canon(x, t[1]) for x in canon[1]]]
    return canon


def sm_to_code(sm, with_resolvers=True, key_order=None, unwrapped_singles=False):
    """Build the schema through the constructors of py_gql.schema (no SDL involved).

    key_order: None (input-object defaults keyed in field declaration order) | "reversed" | "rotated"."""
    from py_gql.schema import (
        ID,
        Argument,
        Boolean,
        Directive,
        Field,
        Float,
        InputField,
        InputObjectType,
        Int,
        InterfaceType,
        ListType,
        NonNullType,
        ObjectType,
        Schema,
        String,
        UnionType,
    )

    env = sm_env(sm)
    built = {"Int": Int, "Float": Float, "String": String, "Boolean": Boolean, "ID": ID}

    def ref(t):
        if t[0] == "nn":
            return NonNullType(ref(t[1]))
        if t[0] == "l":
            return ListType(ref(t[1]))
        return built[t[1]]

    def lazy_ref(t):
        return lambda: ref(t)

    def kwargs_default(iv):
        kw = {}
        if iv["default"] is not None:
            kw["default_value"] = (coerce_unwrapped if unwrapped_singles else coerce_literal)(env, iv["type"], iv["default"])
            if key_order:
                kw["default_value"] = reorder_keys(kw["default_value"], key_order)
        if iv.get("python_name"):
            kw["python_name"] = iv["python_name"]
        return kw

    def mk_args(args):
        return [Argument(a["name"], lazy_ref(a["type"]), description=a["description"], **kwargs_default(a)) for a in args]

    def mk_fields(t):
        out = []
        for f in t["fields"]:
            d, r = _n_dep(f["deprecation"])
            out.append(
                Field(
                    f["name"],
                    lazy_ref(f["type"]),
                    args=mk_args(f["args"]) or None,
                    description=f["description"],
                    deprecation_reason=r,
                    resolver=_default_resolver if with_resolvers else None,
                )
            )
        return out

    def resolve_type(value, ctx, info):
        return value.get("__typename") if isinstance(value, dict) else None

    for t in sm["types"]:
        k, name = t["kind"], t["name"]
        if k == "scalar":
            built[name] = code_scalar(name, t.get("impl"), t["description"])
        elif k == "enum":
            built[name] = code_enum(t)
        elif k == "object":
            built[name] = ObjectType(
                name,
                fields=(lambda t=t: mk_fields(t)),
                interfaces=(lambda t=t: [built[i] for i in t["interfaces"]]),
                description=t["description"],
            )
        elif k == "interface":
            built[name] = InterfaceType(name, fields=(lambda t=t: mk_fields(t)), resolve_type=resolve_type, description=t["description"])
        elif k == "union":
            built[name] = UnionType(name, types=(lambda t=t: [built[m] for m in t["members"]]), resolve_type=resolve_type, description=t["description"])
        elif k == "input":
            built[name] = InputObjectType(
                name,
                fields=(lambda t=t: [InputField(f["name"], lazy_ref(f["type"]), description=f["description"], **kwargs_default(f)) for f in t["fields"]]),
                description=t["description"],
            )
    directives = [Directive(d["name"], locations=list(d["locations"]), args=mk_args(d["args"]), description=d["description"]) for d in sm["directives"]]
    r = sm["roots"]
    return Schema(
        query_type=built[r["query"]] if r["query"] else None,
        mutation_type=built[r["mutation"]] if r["mutation"] else None,
        subscription_type=built[r["subscription"]] if r["subscription"] else None,
        types=[built[t["name"]] for t in sm["types"]],
        directives=directives,
    )


# ---------------------------------------------------------------------------------------------
# extractor


def _x_type(t, S):
    """type object -> (text, named type object) by walking wrappers structurally."""
    if isinstance(t, S.NonNullType):
        s, n = _x_type(t.type, S)
        return s + "!", n
    if isinstance(t, S.ListType):
        s, n = _x_type(t.type, S)
        return "[" + s + "]", n
    return t.name, t


def sm_from_schema(schema, builtin=False):
    """Live schema -> (NSM, list of identity facts that are FALSE).

    Only public attributes are read.  With builtin=False the five specified scalars, the
    introspection types and @include/@skip/@deprecated are left out.
    """
    import py_gql.schema as S

    bad = []
    types = {}

    def check(path, named):
        got = schema.types.get(named.name)
        if got is not named:
            bad.append(path + "->" + str(named.name) + (":missing" if got is None else ":not-identical"))

    def x_ival(path, iv):
        ts, named = _x_type(iv.type, S)
        check(path + "." + iv.name, named)
        has = bool(iv.has_default_value)
        return {
            "name": iv.name,
            "description": iv.description,
            "type": ts,
            "has_default": has,
            "default": canon_value(iv.default_value) if has else None,
            "python_name": iv.python_name,
        }

    def x_field(path, f):
        ts, named = _x_type(f.type, S)
        check(path + "." + f.name, named)
        return {
            "name": f.name,
            "description": f.description,
            "type": ts,
            "args": [x_ival(path + "." + f.name, a) for a in f.arguments],
            "deprecated": f.deprecated,
            "reason": f.deprecation_reason,
        }

    for name, t in schema.types.items():
        if not builtin and (name in SPECIFIED or name.startswith("__")):
            continue
        n = {"description": t.description}
        if name != t.name:
            bad.append("types[%s].name=%s" % (name, t.name))
        if isinstance(t, S.ObjectType):
            n["kind"] = "object"
            n["fields"] = [x_field(name, f) for f in t.fields]
            n["interfaces"] = []
            for i in t.interfaces:
                n["interfaces"].append(i.name)
                check(name + ":implements", i)
        elif isinstance(t, S.InterfaceType):
            n["kind"] = "interface"
            n["fields"] = [x_field(name, f) for f in t.fields]
        elif isinstance(t, S.UnionType):
            n["kind"] = "union"
            n["members"] = []
            for m in t.types:
                n["members"].append(m.name)
                check(name + ":member", m)
        elif isinstance(t, S.EnumType):
            n["kind"] = "enum"
            n["values"] = [
                {
                    "name": v.name,
                    "description": v.description,
                    "deprecated": v.deprecated,
                    "reason": v.deprecation_reason,
                    "value": canon_value(v.value),
                }
                for v in t.values
            ]
        elif isinstance(t, S.InputObjectType):
            n["kind"] = "input"
            n["fields"] = [x_ival(name, f) for f in t.fields]
        elif isinstance(t, S.ScalarType):
            n["kind"] = "scalar"
        else:
            n["kind"] = "?" + type(t).__name__
        if n["kind"] in ("interface", "union"):
            poss = []
            for p in schema.get_possible_types(t):
                poss.append(p.name)
                check(name + ":possible", p)
            n["possible"] = sorted(poss)
        types[name] = n
    directives = {}
    for name, d in schema.directives.items():
        if not builtin and name in BUILTIN_DIRECTIVES:
            continue
        directives[name] = {
            "description": d.description,
            "locations": list(d.locations),
            "args": [x_ival("@" + name, a) for a in d.arguments],
        }
    roots = {}
    for op, rt in (("query", schema.query_type), ("mutation", schema.mutation_type), ("subscription", schema.subscription_type)):
        roots[op] = rt.name if rt is not None else None
        if rt is not None:
            check("root:" + op, rt)
    return {"types": types, "directives": directives, "roots": roots}, bad


# ---------------------------------------------------------------------------------------------
# comparison


def _cmp_list(kind, path, exp, got, out, item_cmp):
    en, gn = [x["name"] for x in exp], [x["name"] for x in got]
    if en != gn:
        if sorted(en) == sorted(gn) and len(set(en)) == len(en):
            out.append((kind + ".order", path, en, gn))
        else:
            out.append((kind + ".names", path, en, gn))
    gby = {}
    for x in got:
        gby.setdefault(x["name"], x)
    for x in exp:
        if x["name"] in gby:
            item_cmp(path + "." + x["name"], x, gby[x["name"]], out)


def _cmp_attrs(kind, path, exp, got, attrs, out):
    for a in attrs:
        if exp.get(a) != got.get(a):
            out.append(("%s.%s" % (kind, a), path, exp.get(a), got.get(a)))


def _mk_ival_cmp(kind, ignore=()):
    def cmp(path, e, g, out):
        _cmp_attrs(kind, path, e, g, [a for a in ("description", "type", "has_default", "default", "python_name") if a not in ignore], out)

    return cmp


def sm_diff(exp, got, ignore=()):
    """-> list of (element.attribute, path, expected, got); empty when equal.

    ignore: attribute names left out (e.g. "python_name", "value" when comparing across an SDL hop).
    """
    out = []
    if exp["roots"] != got["roots"]:
        for op in ("query", "mutation", "subscription"):
            if exp["roots"].get(op) != got["roots"].get(op):
                out.append(("schema.%s" % op, "roots", exp["roots"].get(op), got["roots"].get(op)))
    for name in exp["types"]:
        if name not in got["types"]:
            out.append(("type.missing", name, exp["types"][name]["kind"], None))
    for name in got["types"]:
        if name not in exp["types"]:
            out.append(("type.extra", name, None, got["types"][name]["kind"]))
    arg_cmp = _mk_ival_cmp("arg", ignore)
    if_cmp = _mk_ival_cmp("input-field", ignore)
    darg_cmp = _mk_ival_cmp("directive-arg", ignore)

    def dep_attrs(e, g):
        # the reason of an element that is not deprecated carries no information
        return ("deprecated", "reason") if (e.get("deprecated") and g.get("deprecated")) else ("deprecated",)

    def field_cmp(path, e, g, out):
        _cmp_attrs("field", path, e, g, ("description", "type") + dep_attrs(e, g), out)
        _cmp_list("arg", path, e["args"], g["args"], out, arg_cmp)

    def ev_cmp(path, e, g, out):
        _cmp_attrs("enum-value", path, e, g, [a for a in ("description",) + dep_attrs(e, g) + ("value",) if a not in ignore], out)

    for name, e in exp["types"].items():
        g = got["types"].get(name)
        if g is None:
            continue
        if e["kind"] != g["kind"]:
            out.append(("type.kind", name, e["kind"], g["kind"]))
            continue
        k = e["kind"]
        if e["description"] != g["description"]:
            out.append((k + ".description", name, e["description"], g["description"]))
        if k in ("object", "interface", "enum", "input") and (e.get("fields" if k != "enum" else "values") is None or g.get("fields" if k != "enum" else "values") is None):
            if e.get("fields" if k != "enum" else "values") != g.get("fields" if k != "enum" else "values"):
                out.append((k + ".members-null", name, None, None))
            continue
        if k in ("object", "interface"):
            _cmp_list("field", name, e["fields"], g["fields"], out, field_cmp)
        if k == "object" and e.get("interfaces") != g.get("interfaces"):
            out.append(("object.interfaces", name, e.get("interfaces"), g.get("interfaces")))
        if k == "union" and e.get("members") != g.get("members"):
            out.append(("union.members", name, e.get("members"), g.get("members")))
        if k == "enum":
            _cmp_list("enum-value", name, e["values"], g["values"], out, ev_cmp)
        if k == "input":
            _cmp_list("input-field", name, e["fields"], g["fields"], out, if_cmp)
        if k in ("interface", "union") and "possible" in e and "possible" in g and e["possible"] != g["possible"]:
            out.append((k + ".possible-types", name, e["possible"], g["possible"]))
    for name in exp["directives"]:
        if name not in got["directives"]:
            out.append(("directive.missing", "@" + name, True, None))
    for name in got["directives"]:
        if name not in exp["directives"]:
            out.append(("directive.extra", "@" + name, None, True))
    for name, e in exp["directives"].items():
        g = got["directives"].get(name)
        if g is None:
            continue
        _cmp_attrs("directive", "@" + name, e, g, ("description", "locations"), out)
        _cmp_list("directive-arg", "@" + name, e["args"], g["args"], out, darg_cmp)
    return out


def text_change_facet(before, after):
    """How a string differs from what it should be (mechanical; for class keys)."""
    names = {" ": "sp", "\t": "tab", "\n": "nl"}

    def edge(x):
        return "+".join(sorted({names.get(c, "other") for c in x})) or "-"

    if after is None:
        return "lost:empty" if before == "" else ("lost:blank" if before.strip() == "" else "lost")
    if before is None:
        return "invented:empty" if after == "" else "invented"
    if before.strip() == after.strip():
        core = before.strip()
        if core == "":
            return "blank-changed"
        bl, al = before[: before.index(core)] if core else before, after[: after.index(core)] if core else after
        bt, at = before[len(bl) + len(core) :], after[len(al) + len(core) :]
        parts = []
        if bl != al:
            parts.append("lead:%s->%s" % (edge(bl), edge(al)))
        if bt != at:
            parts.append("trail:%s->%s" % (edge(bt), edge(at)))
        return "edge-whitespace/" + ",".join(parts)
    if before.split() == after.split():
        return "inner-whitespace"
    try:
        before.encode("utf-8"), after.encode("utf-8")
    except UnicodeEncodeError:
        return "content/lone-surrogates"
    return "content"


def sm_element(sm, path):
    """'Type.field', 'Type.field.arg', '@directive.arg' -> the SM element (or None)."""
    parts = path.split(".")
    try:
        if parts[0].startswith("@"):
            d = [d for d in sm["directives"] if d["name"] == parts[0][1:]][0]
            return d if len(parts) == 1 else [a for a in d["args"] if a["name"] == parts[1]][0]
        t = sm_type(sm, parts[0])
        if len(parts) == 1:
            return t
        if t["kind"] == "enum":
            return [v for v in t["values"] if v["name"] == parts[1]][0]
        f = [f for f in t["fields"] if f["name"] == parts[1]][0]
        return f if len(parts) == 2 else [a for a in f["args"] if a["name"] == parts[2]][0]
    except (IndexError, KeyError, TypeError):
        return None


def default_detail(sm, path):
    """class-key detail for a default difference: kind of the named type and of the declared literal."""
    el = sm_element(sm, path)
    if el is None or "type" not in el:
        return ""
    named = tname(el["type"])
    env = sm_env(sm)
    kind = env[named]["kind"] if named in env else named
    lit = el["default"][0] if el.get("default") else "none"
    return "/type=%s/lit=%s" % (kind, lit)


def sm_violations(sm):
    """Reference validity of a model (only the rules a base-only reading of a split document can break):
    empty member lists, interface fields missing from an implementing object, root types."""
    out = []
    env = sm_env(sm)
    for t in sm["types"]:
        k = t["kind"]
        if k in ("object", "interface", "input") and not t["fields"]:
            out.append("empty-" + k)
        if k == "union" and not t["members"]:
            out.append("empty-union")
        if k == "enum" and not t["values"]:
            out.append("empty-enum")
        if k == "object":
            have = {f["name"]: f for f in t["fields"]}
            for i in t["interfaces"]:
                it = env.get(i)
                if it is None or it["kind"] != "interface":
                    out.append("implements-non-interface")
                    continue
                for f in it["fields"]:
                    if f["name"] not in have:
                        out.append("interface-field-missing")
    q = sm["roots"].get("query")
    if not q or q not in env or env[q]["kind"] != "object":
        out.append("no-query-root")
    return out


# ---------------------------------------------------------------------------------------------
# introspection result -> introspection-shaped model


def _i_typeref(ref):
    """TypeRef JSON -> (text, complete?)"""
    if ref is None:
        return "?", False
    k = ref.get("kind")
    if k == "NON_NULL":
        s, ok = _i_typeref(ref.get("ofType"))
        return s + "!", ok
    if k == "LIST":
        s, ok = _i_typeref(ref.get("ofType"))
        return "[" + s + "]", ok
    return (ref.get("name") or "?"), ref.get("name") is not None


_KIND = {"SCALAR": "scalar", "OBJECT": "object", "INTERFACE": "interface", "UNION": "union", "ENUM": "enum", "INPUT_OBJECT": "input"}


def sm_from_introspection(data):
    """`data` = the "data" member of the response to the standard introspection query.

    Returns a model in NSM shape with, instead of coerced defaults, the raw `defaultValue` strings under
    "default_text" (has_default = the string is not null).  Deprecation of fields / enum values as
    reported.  Raises ValueError on a structurally malformed result.
    """
    sch = data["__schema"]

    def ival(j):
        ts, ok = _i_typeref(j["type"])
        # (an incomplete chain shows up as "?" in the type text and is reported as a type difference)
        return {
            "name": j["name"],
            "description": j.get("description"),
            "type": ts,
            "has_default": j["defaultValue"] is not None,
            "default_text": j["defaultValue"],
        }

    def names(lst):
        out = []
        for r in lst:
            s, ok = _i_typeref(r)
            out.append(s)
        return out

    types = {}
    for t in sch["types"]:
        k = _KIND.get(t["kind"], "?" + str(t["kind"]))
        n = {"kind": k, "description": t.get("description")}
        if k in ("object", "interface"):
            if t["fields"] is None:
                raise ValueError("fields is null for %s" % t["name"])
            fs = []
            for f in t["fields"]:
                ts, ok = _i_typeref(f["type"])
                fs.append(
                    {
                        "name": f["name"],
                        "description": f.get("description"),
                        "type": ts,
                        "args": [ival(a) for a in f["args"]],
                        "deprecated": f["isDeprecated"],
                        "reason": f["deprecationReason"],
                    }
                )
            n["fields"] = fs
        elif t["fields"] is not None:
            n["unexpected:fields"] = True
        if k == "object":
            n["interfaces"] = names(t["interfaces"] or [])
            if t["interfaces"] is None:
                n["interfaces"] = None
        elif t["interfaces"] is not None:
            n["unexpected:interfaces"] = True
        if k in ("interface", "union"):
            n["possible"] = sorted(names(t["possibleTypes"])) if t["possibleTypes"] is not None else None
        elif t["possibleTypes"] is not None:
            n["unexpected:possibleTypes"] = True
        if k == "enum":
            n["values"] = (
                [
                    {"name": v["name"], "description": v.get("description"), "deprecated": v["isDeprecated"], "reason": v["deprecationReason"]}
                    for v in t["enumValues"]
                ]
                if t["enumValues"] is not None
                else None
            )
        elif t["enumValues"] is not None:
            n["unexpected:enumValues"] = True
        if k == "input":
            n["fields"] = [ival(f) for f in t["inputFields"]] if t["inputFields"] is not None else None
        elif t["inputFields"] is not None:
            n["unexpected:inputFields"] = True
        if t["name"] in types:
            n["duplicate"] = True
        types[t["name"]] = n
    directives = {}
    for d in sch["directives"]:
        directives[d["name"]] = {
            "description": d.get("description"),
            "locations": list(d["locations"]),
            "args": [ival(a) for a in d["args"]],
        }
    roots = {}
    for op, key in (("query", "queryType"), ("mutation", "mutationType"), ("subscription", "subscriptionType")):
        roots[op] = sch[key]["name"] if sch.get(key) else None
    return {"types": types, "directives": directives, "roots": roots}


# ---------------------------------------------------------------------------------------------


def selftest():
    from . import coerce_lit

    coerce_lit.selftest()
    # block string form: reference BlockStringValue() of what we emit must be the description
    def block_value(raw):
        lines = raw.replace("\r\n", "\n").replace("\r", "\n").split("\n")
        ci = None
        for ln in lines[1:]:
            ind = len(ln) - len(ln.lstrip(" \t"))
            if ind < len(ln) and (ci is None or ind < ci):
                ci = ind
        if ci:
            lines = lines[:1] + [ln[ci:] for ln in lines[1:]]
        while lines and lines[0].strip(" \t") == "":
            lines.pop(0)
        while lines and lines[-1].strip(" \t") == "":
            lines.pop()
        return "\n".join(lines)

    for desc in ("a", "a\nb", "a\n\nb", 'has """ in', 'ends "', "ends \\", "a\n  b\nc", 'q"\n"'):
        for ind in ("", "  "):
            txt = emit_description(desc, ind, "block")
            if txt.lstrip().startswith('"""'):
                inner = txt.strip()
                inner = inner[3:-3].replace('\\"""', '"""')
                assert block_value(inner) == desc, (desc, txt)
    assert not block_ok("a\n  b") and block_ok("a\n  b\nc") and not block_ok(" a") and not block_ok("a\n")
    sm = sm_new()
    sm["types"].append(mk_type("object", "Query", fields=[mk_field("a", "Int", args=[mk_ival("x", "[Int]", default=["int", "1"])])]))
    sm["roots"]["query"] = "Query"
    n = sm_expected(sm)
    assert n["types"]["Query"]["fields"][0]["args"][0]["default"] == ["l", [["i", "1"]]]
    assert sm_diff(n, copy.deepcopy(n)) == []
    assert sm_to_sdl(sm) == "type Query {\n  a(x: [Int] = 1): Int\n}\n"
    sp = {"Query": {"blocks": [[], ["f:a"]], "place": "before"}}
    assert sm_to_sdl(sm, split=sp) == "extend type Query {\n  a(x: [Int] = 1): Int\n}\n\ntype Query\n"
