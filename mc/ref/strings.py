# -*- coding: utf-8 -*-
"""
Reference string semantics of GraphQL (June 2018, section 2.9.4), transliterated from the
specification text and kept free of any Python str helper whose notion of "line" or "blank" differs
from the specification's (no splitlines / strip / isspace / isalnum / isdigit).

    decode_quoted(body)        value of  "body"   or None when `body` is not a sequence of
                               StringCharacter (lexically invalid)
    scan_block(body)           raw value of  \"\"\"body\"\"\"  (\\\"\"\" -> \"\"\") or None when the text
                               \"\"\"body\"\"\" is not exactly one BlockString token
    block_string_value(raw)    BlockStringValue(raw) of the specification
    decode_block(body)         block_string_value(scan_block(body)) or None

The `variant` argument of block_string_value exists only to *classify* disagreements of the
implementation (which model of "line terminator" / "white space" explains its output); the oracle is
always variant=().
"""

HEX = "0123456789abcdefABCDEF"

SIMPLE_ESCAPES = {
    '"': '"',
    "\\": "\\",
    "/": "/",
    "b": "\u0008",
    "f": "\u000c",
    "n": "\u000a",
    "r": "\u000d",
    "t": "\u0009",
}


def is_source_character(ch):
    """SourceCharacter :: /[\\u0009\\u000A\\u000D\\u0020-\\uFFFF]/ read over code points (DESIGN 4.2 (i))."""
    o = ord(ch)
    return o == 0x9 or o == 0xA or o == 0xD or o >= 0x20


def decode_quoted(body):
    out = []
    i = 0
    n = len(body)
    while i < n:
        ch = body[i]
        if ch == '"':
            return None  # would terminate the string
        if ch == "\n" or ch == "\r":
            return None  # LineTerminator is not a StringCharacter
        if not is_source_character(ch):
            return None
        if ch != "\\":
            out.append(ch)
            i += 1
            continue
        # escape
        if i + 1 >= n:
            return None
        e = body[i + 1]
        if e == "u":
            hexes = body[i + 2 : i + 6]
            if len(hexes) != 4:
                return None
            for h in hexes:
                if h not in HEX:
                    return None
            v = 0
            for h in hexes:
                v = v * 16 + "0123456789abcdef".index(h.lower())
            out.append(chr(v))
            i += 6
            continue
        if e in SIMPLE_ESCAPES:
            out.append(SIMPLE_ESCAPES[e])
            i += 2
            continue
        return None
    return "".join(out)


def scan_block(body):
    """
    BlockStringCharacter :: SourceCharacter but not `\"\"\"` or `\\\"\"\"`  |  `\\\"\"\"`
    Scan  body + '\"\"\"'  left to right; the token must close exactly at len(body).
    """
    text = body + '"""'
    out = []
    i = 0
    while True:
        if text.startswith('"""', i):
            if i == len(body):
                return "".join(out)
            return None  # closes early: `body` is not the body of one single token
        if i >= len(body):
            return None  # the closing quotes were consumed by an escape: unterminated
        if text.startswith('\\"""', i):
            out.append('"""')
            i += 4
            continue
        ch = text[i]
        if not is_source_character(ch):
            return None
        out.append(ch)
        i += 1


PY_LINE_BREAKS = "\n\r\x0b\x0c\x1c\x1d\x1e\x85\u2028\u2029"


def _split_lines(raw, python_lines):
    """Split on LineTerminator: \\n | \\r\\n | \\r  (python_lines: emulate str.splitlines())."""
    lines = []
    cur = []
    i = 0
    n = len(raw)
    brk = PY_LINE_BREAKS if python_lines else "\n\r"
    while i < n:
        ch = raw[i]
        if ch in brk:
            lines.append("".join(cur))
            cur = []
            if ch == "\r" and i + 1 < n and raw[i + 1] == "\n":
                i += 1
            i += 1
            if python_lines and i == n:
                return lines  # str.splitlines() drops the empty line after a trailing break
            continue
        cur.append(ch)
        i += 1
    lines.append("".join(cur))
    if python_lines and raw == "":
        return []
    return lines


def _is_ws(ch, python_blank):
    if ch == " " or ch == "\t":
        return True
    return bool(python_blank) and ch.isspace()


def _leading_ws(line, python_blank):
    k = 0
    for ch in line:
        if _is_ws(ch, python_blank):
            k += 1
        else:
            break
    return k


def block_string_value(raw, variant=()):
    """
    BlockStringValue(rawValue):
      1. lines = rawValue split by LineTerminator
      2. commonIndent = null
      3. for each line except the first: indent = number of leading WhiteSpace; if indent < length:
         commonIndent = min(commonIndent, indent)
      4. if commonIndent != null: remove commonIndent characters from each line except the first
      5. while the first line contains only WhiteSpace remove it; same for the last line
      6. join with U+000A
    WhiteSpace :: U+0009 | U+0020
    """
    python_lines = "py-splitlines" in variant
    python_blank = "py-lstrip" in variant
    lines = _split_lines(raw, python_lines)
    common = None
    for line in lines[1:]:
        indent = _leading_ws(line, python_blank)
        if indent < len(line):
            if common is None or indent < common:
                common = indent
    if common is not None and common != 0:
        for k in range(1, len(lines)):
            lines[k] = lines[k][common:]
    while lines and _leading_ws(lines[0], python_blank) == len(lines[0]):
        lines.pop(0)
    while lines and _leading_ws(lines[-1], python_blank) == len(lines[-1]):
        lines.pop()
    return "\n".join(lines)


def decode_block(body, variant=()):
    raw = scan_block(body)
    if raw is None:
        return None
    return block_string_value(raw, variant)


def selftest():
    # examples of the specification, section 2.9.4
    assert decode_quoted("") == ""
    assert decode_quoted("a\\n\\u00e9\\\"\\\\\\/") == 'a\né"\\/'
    assert decode_quoted("\\u0041\\uD83D") == "A\ud83d"
    assert decode_quoted("\\uABCD") == "ꯍ" and decode_quoted("\\uabcd") == "ꯍ"
    assert decode_quoted("\\x") is None and decode_quoted("\\u12") is None and decode_quoted("\\") is None
    assert decode_quoted('a"b') is None and decode_quoted("a\nb") is None and decode_quoted("\x07") is None
    assert decode_quoted("\\u00g0") is None
    spec = '\n    Hello,\n      World!\n\n    Yours,\n      GraphQL.\n  '
    assert decode_block(spec) == "Hello,\n  World!\n\nYours,\n  GraphQL."
    assert decode_block("") == ""
    assert decode_block("a") == "a"
    assert decode_block(" a ") == " a "
    assert decode_block("\n\n a\n\n") == "a"
    assert decode_block("a\r\n  b\r  c") == "a\nb\nc"
    assert decode_block('a\\"""b') == 'a"""b'
    assert decode_block('a"') is None and decode_block('a"""b') is None and decode_block("a\\") is None
    assert decode_block('a""b') == 'a""b'
    assert decode_block("\\n") == "\\n"
    assert decode_block("\t a\n\t b") == "\t a\nb"
    # only space and tab are indentation, only \n \r\n \r are line terminators
    assert decode_block("a\n b\n  c") == "a\n b\n  c"
    assert decode_block("a   b") == "a   b"
    assert decode_block("\u0085") == "\u0085"
    # the classifying variants emulate the Python helpers
    for raw in ("", "a", "a\n", "\n", "a  b\n c", " a\n  b", "a\r\n\rb\n", " \u0085 "):
        lines = _split_lines(raw, True)
        assert lines == raw.splitlines(), (raw, lines)
