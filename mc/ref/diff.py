# -*- coding: utf-8 -*-
"""
ref/diff.py -- reference oracles for schema diffing (C20), over the plain-data model of cs_model.

    at_least_as_strict(old, new, is_sub)   output positions (own covariance): non-null may be added,
                                           never removed, at any depth; list structure fixed; named
                                           type equal or a subtype.
    at_least_as_permissive(old, new)       input positions: non-null may be removed, never added, at
                                           any depth; list structure fixed; named type equal.
    strictness_breach(old, new)            where an output change stops being covariant (class keys)
    must_break(old_sm, new_sm)             every reason why old -> new can break a client; the differ
                                           is unsound if this is non-empty and it reports no BREAKING
                                           change.
"""
from . import cs_model as M


def _p(t):
    return M.parse_type(t) if isinstance(t, str) else t


def at_least_as_strict(old, new, is_sub=None):
    old, new = _p(old), _p(new)
    if old[0] == "nn":
        return new[0] == "nn" and at_least_as_strict(old[1], new[1], is_sub)
    if new[0] == "nn":  # non-null added
        return at_least_as_strict(old, new[1], is_sub)
    if old[0] == "l":
        return new[0] == "l" and at_least_as_strict(old[1], new[1], is_sub)
    if new[0] != "n":
        return False
    if old[1] == new[1]:
        return True
    return bool(is_sub and is_sub(new[1], old[1]))


def at_least_as_permissive(old, new):
    old, new = _p(old), _p(new)
    if new[0] == "nn":
        return old[0] == "nn" and at_least_as_permissive(old[1], new[1])
    if old[0] == "nn":  # non-null removed
        return at_least_as_permissive(old[1], new)
    if old[0] == "l":
        return new[0] == "l" and at_least_as_permissive(old[1], new[1])
    return new[0] == "n" and old[1] == new[1]


def breach(old, new, direction):
    """
    Mechanical description of the first place where the change stops being safe, or None.
    direction "output": dropping non-null is the breach; "input": adding non-null is.
      'nonnull-dropped:top' / 'nonnull-dropped:inside-list' / 'nonnull-added:...' /
      'list-structure' / 'named-type'
    """
    old, new = _p(old), _p(new)

    def rec(o, n, depth):
        where = "top" if depth == 0 else "inside-list"
        if direction == "output":
            if o[0] == "nn":
                if n[0] != "nn":
                    return "nonnull-dropped:" + where
                return rec(o[1], n[1], depth)
            if n[0] == "nn":
                return rec(o, n[1], depth)
        else:
            if n[0] == "nn":
                if o[0] != "nn":
                    return "nonnull-added:" + where
                return rec(o[1], n[1], depth)
            if o[0] == "nn":
                return rec(o[1], n, depth)
        if o[0] == "l" or n[0] == "l":
            if o[0] != n[0]:
                return "list-structure"
            return rec(o[1], n[1], depth + 1)
        if o[1] != n[1]:
            return "named-type"
        return None

    return rec(old, new, 0)


def subtype_fn(sm):
    """is_sub(name, super_name) in schema model sm: object implements interface / member of union."""

    def is_sub(name, sup):
        t = M.get_type(sm, name)
        s = M.get_type(sm, sup)
        if not t or not s or t["kind"] != "object":
            return False
        if s["kind"] == "interface":
            return sup in (t.get("interfaces") or ())
        if s["kind"] == "union":
            return name in (s.get("members") or ())
        return False

    return is_sub


def _required(a):
    return M.parse_type(a["type"])[0] == "nn" and "default" not in a


def _diff_inputs(kind, owner, old_list, new_list, out):
    old = {a["name"]: a for a in old_list}
    new = {a["name"]: a for a in new_list}
    for n, a in old.items():
        if n not in new:
            out.append((kind + "-removed", "%s %s" % (owner, n)))
            continue
        b = new[n]
        br = breach(a["type"], b["type"], "input")
        if br is not None:
            out.append(("%s-type:%s" % (kind, br), "%s %s: %s -> %s" % (owner, n, a["type"], b["type"])))
        elif _required(b) and not _required(a):
            out.append((kind + ":default-removed-on-non-null", "%s %s: %s" % (owner, n, b["type"])))
    for n, b in new.items():
        if n not in old and _required(b):
            out.append((kind + "-added-required", "%s %s: %s" % (owner, n, b["type"])))


def must_break(old_sm, new_sm):
    """list of (reason kind, description): ways in which new_sm can break a client of old_sm."""
    out = []
    old_t = {t["name"]: t for t in old_sm["types"]}
    new_t = {t["name"]: t for t in new_sm["types"]}
    is_sub = subtype_fn(new_sm)
    for name, o in old_t.items():
        n = new_t.get(name)
        if n is None:
            out.append(("type-removed", name))
            continue
        if n["kind"] != o["kind"]:
            out.append(("type-kind-changed", "%s: %s -> %s" % (name, o["kind"], n["kind"])))
            continue
        k = o["kind"]
        if k in ("object", "interface"):
            nf = {f["name"]: f for f in n.get("fields") or ()}
            for f in o.get("fields") or ():
                g = nf.get(f["name"])
                if g is None:
                    out.append(("field-removed", "%s.%s" % (name, f["name"])))
                    continue
                if not at_least_as_strict(f["type"], g["type"], is_sub):
                    br = breach(f["type"], g["type"], "output")
                    out.append(("output:%s" % br, "%s.%s: %s -> %s" % (name, f["name"], f["type"], g["type"])))
                _diff_inputs("arg", "%s.%s" % (name, f["name"]), f.get("args") or (), g.get("args") or (), out)
        if k == "object":
            for i in o.get("interfaces") or ():
                if i not in (n.get("interfaces") or ()):
                    out.append(("interface-implementation-removed", "%s implements %s" % (name, i)))
        if k == "union":
            for m in o.get("members") or ():
                if m not in (n.get("members") or ()):
                    out.append(("union-member-removed", "%s | %s" % (name, m)))
        if k == "enum":
            nv = {v["name"] for v in n.get("values") or ()}
            for v in o.get("values") or ():
                if v["name"] not in nv:
                    out.append(("enum-value-removed", "%s.%s" % (name, v["name"])))
        if k == "input":
            _diff_inputs("input-field", name, o.get("fields") or (), n.get("fields") or (), out)
    old_d = {d["name"]: d for d in old_sm.get("directives") or ()}
    new_d = {d["name"]: d for d in new_sm.get("directives") or ()}
    for name, o in old_d.items():
        n = new_d.get(name)
        if n is None:
            out.append(("directive-removed", "@" + name))
            continue
        for loc in o["locations"]:
            if loc not in n["locations"]:
                out.append(("directive-location-removed", "@%s %s" % (name, loc)))
        _diff_inputs("directive-arg", "@" + name, o.get("args") or (), n.get("args") or (), out)
    oroots = old_sm.get("roots") or {}
    nroots = new_sm.get("roots") or {}
    for op in ("query", "mutation", "subscription"):
        if oroots.get(op) and oroots.get(op) != nroots.get(op):
            out.append(("root-changed" if nroots.get(op) else "root-removed", "%s: %s -> %s" % (op, oroots.get(op), nroots.get(op))))
    return out


def _idef_changes(kind, classes, owner_names, old_list, new_list, out):
    """kind in {"arg","input-field","directive-arg"}; classes = dict of change-class names."""
    old = {a["name"]: a for a in old_list}
    new = {a["name"]: a for a in new_list}
    for n, a in old.items():
        names = owner_names + [n]
        if n not in new:
            out.append({"kind": "remove:" + kind, "names": names, "classes": [classes["removed"]]})
            continue
        b = new[n]
        if a["type"] != b["type"]:
            safe = at_least_as_permissive(a["type"], b["type"])
            out.append(
                {"kind": "retype:" + kind, "names": names, "classes": [classes["retyped"]], "ref_safe": safe, "breach": breach(a["type"], b["type"], "input")}
            )
        if ("default" in a) != ("default" in b) or ("default" in a and a["default"] != b["default"]):
            which = "remove-default" if "default" not in b else ("add-default" if "default" not in a else "change-default")
            out.append({"kind": "%s:%s" % (which, kind), "names": names, "classes": [classes["default"]]})
    for n, b in new.items():
        if n not in old:
            out.append({"kind": "add:" + kind, "names": owner_names + [n], "classes": [classes["added"]]})


_ARG = {"removed": "FieldArgumentRemoved", "added": "FieldArgumentAdded", "retyped": "FieldArgumentChangedType", "default": "FieldArgumentDefaultValueChange"}
_INF = {"removed": "InputFieldRemoved", "added": "InputFieldAdded", "retyped": "InputFieldChangedType", "default": "InputFieldDefaultValueChange"}
_DARG = {"removed": "DirectiveArgumentRemoved", "added": "DirectiveArgumentAdded", "retyped": "DirectiveArgumentChangedType", "default": "DirectiveArgumentDefaultValueChange"}


def _dep_change(old_dep, new_dep):
    if old_dep == new_dep:
        return None
    if old_dep is None:
        return "add-deprecation"
    if new_dep is None:
        return "remove-deprecation"
    return "change-deprecation"


def ref_diff(old_sm, new_sm):
    """
    Reference differ over models: every elementary difference the property lists, as
    {"kind", "names" (what a change must name), "classes" (acceptable SchemaChange class names)}.
    Differences below a removed / added / kind-changed type are not listed separately.
    Descriptions and root operation types are not part of the property's list of edits.
    """
    out = []
    old_t = {t["name"]: t for t in old_sm["types"]}
    new_t = {t["name"]: t for t in new_sm["types"]}
    is_sub = subtype_fn(new_sm)
    for name, o in old_t.items():
        n = new_t.get(name)
        if n is None:
            out.append({"kind": "remove-type", "names": [name], "classes": ["TypeRemoved"]})
            continue
        if n["kind"] != o["kind"]:
            out.append({"kind": "change-kind", "names": [name], "classes": ["TypeChangedKind"]})
            continue
        k = o["kind"]
        if k in ("object", "interface"):
            nf = {f["name"]: f for f in n.get("fields") or ()}
            of = {f["name"]: f for f in o.get("fields") or ()}
            for fname, f in of.items():
                g = nf.get(fname)
                if g is None:
                    out.append({"kind": "remove-field", "names": [name, fname], "classes": ["FieldRemoved"]})
                    continue
                if f["type"] != g["type"]:
                    out.append(
                        {
                            "kind": "retype:field",
                            "names": [name, fname],
                            "classes": ["FieldChangedType"],
                            "ref_safe": at_least_as_strict(f["type"], g["type"], is_sub),
                            "breach": breach(f["type"], g["type"], "output"),
                        }
                    )
                _idef_changes("arg", _ARG, [name, fname], f.get("args") or (), g.get("args") or (), out)
                dc = _dep_change(f.get("dep"), g.get("dep"))
                if dc:
                    cls = {"add-deprecation": "FieldDeprecated", "remove-deprecation": "FieldDeprecationRemoved", "change-deprecation": "FieldDeprecationReasonChanged"}[dc]
                    out.append({"kind": dc + ":field", "names": [name, fname], "classes": [cls], "reason": g.get("dep")})
            for fname in nf:
                if fname not in of:
                    out.append({"kind": "add-field", "names": [name, fname], "classes": ["FieldAdded"]})
        if k == "object":
            for i in o.get("interfaces") or ():
                if i not in (n.get("interfaces") or ()):
                    out.append({"kind": "remove-interface", "names": [name, i], "classes": ["TypeRemovedFromInterface"]})
            for i in n.get("interfaces") or ():
                if i not in (o.get("interfaces") or ()):
                    out.append({"kind": "add-interface", "names": [name, i], "classes": ["TypeAddedToInterface"]})
        if k == "union":
            for m in o.get("members") or ():
                if m not in (n.get("members") or ()):
                    out.append({"kind": "remove-union-member", "names": [name, m], "classes": ["TypeRemovedFromUnion"]})
            for m in n.get("members") or ():
                if m not in (o.get("members") or ()):
                    out.append({"kind": "add-union-member", "names": [name, m], "classes": ["TypeAddedToUnion"]})
        if k == "enum":
            nv = {v["name"]: v for v in n.get("values") or ()}
            ov = {v["name"]: v for v in o.get("values") or ()}
            for vn, v in ov.items():
                w = nv.get(vn)
                if w is None:
                    out.append({"kind": "remove:enum-value", "names": [name, vn], "classes": ["EnumValueRemoved"]})
                    continue
                dc = _dep_change(v.get("dep"), w.get("dep"))
                if dc:
                    cls = {"add-deprecation": "EnumValueDeprecated", "remove-deprecation": "EnumValueDeprecationRemoved", "change-deprecation": "EnumValueDeprecationReasonChanged"}[dc]
                    out.append({"kind": dc + ":enum-value", "names": [name, vn], "classes": [cls], "reason": w.get("dep")})
            for vn in nv:
                if vn not in ov:
                    out.append({"kind": "add-enum-value", "names": [name, vn], "classes": ["EnumValueAdded"]})
        if k == "input":
            _idef_changes("input-field", _INF, [name], o.get("fields") or (), n.get("fields") or (), out)
    for name in new_t:
        if name not in old_t:
            out.append({"kind": "add-type", "names": [name], "classes": ["TypeAdded"]})
    old_d = {d["name"]: d for d in old_sm.get("directives") or ()}
    new_d = {d["name"]: d for d in new_sm.get("directives") or ()}
    for name, o in old_d.items():
        n = new_d.get(name)
        if n is None:
            out.append({"kind": "remove-directive", "names": [name], "classes": ["DirectiveRemoved"]})
            continue
        for loc in o["locations"]:
            if loc not in n["locations"]:
                out.append({"kind": "remove-location", "names": [name, loc], "classes": ["DirectiveLocationRemoved"]})
        for loc in n["locations"]:
            if loc not in o["locations"]:
                out.append({"kind": "add-location", "names": [name, loc], "classes": ["DirectiveLocationAdded"]})
        _idef_changes("directive-arg", _DARG, [name], o.get("args") or (), n.get("args") or (), out)
    for name in new_d:
        if name not in old_d:
            out.append({"kind": "add-directive", "names": [name], "classes": ["DirectiveAdded"]})
    return out


def roots_changed(old_sm, new_sm):
    a, b = old_sm.get("roots") or {}, new_sm.get("roots") or {}
    return any(a.get(op) != b.get(op) for op in ("query", "mutation", "subscription"))


def selftest():
    s, p = at_least_as_strict, at_least_as_permissive
    assert s("Int", "Int!") and not s("Int!", "Int")
    assert s("[Int]", "[Int!]") and not s("[Int!]", "[Int]")
    assert s("[Int]", "[Int!]!") and not s("[Int!]!", "[Int]")
    assert not s("Int", "[Int]") and not s("[Int]", "Int") and not s("[[Int]]", "[Int]")
    assert s("[[Int]]", "[[Int!]!]!") and not s("[[Int!]]", "[[Int]]")
    assert not s("Int", "String")
    assert s("I", "O", lambda a, b: (a, b) == ("O", "I")) and not s("O", "I", lambda a, b: (a, b) == ("O", "I"))
    assert p("Int!", "Int") and not p("Int", "Int!")
    assert p("[Int!]", "[Int]") and not p("[Int]", "[Int!]")
    assert p("[Int!]!", "[Int]") and not p("[Int]", "[Int]!")
    assert not p("Int", "[Int]") and not p("[Int]", "Int")
    assert p("[[Int!]!]!", "[[Int]]") and not p("[[Int]]", "[[Int!]]")
    assert breach("[Int!]", "[Int]", "output") == "nonnull-dropped:inside-list"
    assert breach("Int!", "Int", "output") == "nonnull-dropped:top"
    assert breach("[Int]", "[Int!]", "output") is None
    assert breach("[Int]", "[Int!]", "input") == "nonnull-added:inside-list"
    assert breach("Int", "[Int]", "input") == "list-structure"
    assert breach("Int", "String", "output") == "named-type"
    # duality on every pair of wrappers with <= 2 list levels: strict(old,new) <=> permissive(new,old)
    ws = M.wrappers(2)
    for a in ws:
        for b in ws:
            assert s(a, b) == p(b, a), (a, b)
            assert (breach(a, b, "output") is None) == s(a, b), (a, b)
            assert (breach(a, b, "input") is None) == p(a, b), (a, b)
    old = {
        "types": [
            {"kind": "object", "name": "Query", "fields": [{"name": "a", "type": "[Int!]", "args": [{"name": "x", "type": "Int!", "default": 1}]}]},
            {"kind": "enum", "name": "E", "values": [{"name": "A"}, {"name": "B"}]},
        ],
        "directives": [],
        "roots": {"query": "Query"},
    }
    import copy

    new = copy.deepcopy(old)
    assert must_break(old, new) == []
    new["types"][0]["fields"][0]["type"] = "[Int]"
    del new["types"][0]["fields"][0]["args"][0]["default"]
    new["types"][1]["values"].pop()
    assert ref_diff(old, old) == []
    assert [d["kind"] for d in ref_diff(old, new)] == ["retype:field", "remove-default:arg", "remove:enum-value"], ref_diff(old, new)
    kinds = [k for k, _ in must_break(old, new)]
    assert kinds == ["output:nonnull-dropped:inside-list", "arg:default-removed-on-non-null", "enum-value-removed"], kinds
