# -*- coding: utf-8 -*-
"""
Reflective reference traversal of py_gql syntax trees.

Nothing here knows the node kinds: the children of a node are *all* its Node-valued slots and all
Node members of its list slots, Name nodes excluded (the property speaks of "every non-name node"),
ordered by source position (`loc`, which requires a tree parsed with locations).  From that the
expected pre/post-order event sequence of a visitor that changes nothing follows, and the expected
effect of deleting / replacing / skipping one position.

A position is a path: tuple of (slot, index-or-None) steps from the root.
"""


def _is_node(x):
    # duck-typed on purpose: every py_gql.lang.ast.Node has __slots__, to_dict and a loc attribute
    return hasattr(x, "to_dict") and hasattr(x, "__slots__") and hasattr(x, "loc")


def _is_name(x):
    return type(x).__name__ == "Name"


_SLOTS = {}


def slots(node):
    out = _SLOTS.get(type(node))
    if out is None:
        out = _SLOTS[type(node)] = _slots(node)
    return out


def _slots(node):
    out = []
    for klass in type(node).__mro__:
        for s in getattr(klass, "__slots__", ()):
            if s not in ("source", "loc") and s not in out:
                out.append(s)
    return out


def children(node):
    """-> list of (slot, index-or-None, child) in source order, Name nodes excluded"""
    out = []
    for s in slots(node):
        v = getattr(node, s, None)
        if _is_node(v):
            if not _is_name(v):
                out.append((s, None, v))
        elif isinstance(v, list):
            for i, e in enumerate(v):
                if _is_node(e) and not _is_name(e):
                    out.append((s, i, e))
    for s, i, c in out:
        if c.loc is None:
            raise ValueError("reference traversal needs locations")
    out.sort(key=lambda t: (t[2].loc[0], -t[2].loc[1]))
    return out


class Pos(object):
    __slots__ = ("path", "node", "kind", "parent", "slot", "index", "parent_kind")

    def __init__(self, path, node, parent, slot, index):
        self.path, self.node, self.parent, self.slot, self.index = path, node, parent, slot, index
        self.kind = type(node).__name__
        self.parent_kind = type(parent.node).__name__ if parent is not None else None

    def where(self):
        if self.parent is None:
            return "%s at root" % self.kind
        return "%s under %s.%s" % (self.kind, self.parent_kind, self.slot)


def positions(root):
    """pre-order list of Pos for every non-name node"""
    out = []

    def rec(node, path, parent, slot, index):
        p = Pos(path, node, parent, slot, index)
        out.append(p)
        for s, i, c in children(node):
            rec(c, path + ((s, i),), p, s, i)

    rec(root, (), None, None, None)
    return out


def expected_events(root):
    """[( 'enter'|'leave', path )] of a visitor that changes nothing"""
    ev = []

    def rec(node, path):
        ev.append(("enter", path))
        for s, i, c in children(node):
            rec(c, path + ((s, i),))
        ev.append(("leave", path))

    rec(root, ())
    return ev


def is_strict_prefix(p, q):
    return len(p) < len(q) and q[: len(p)] == p


def events_after_edit(base, path, action):
    """
    expected event list when the visitor deletes (returns None from enter) / skips (raises the skip
    signal) at `path`: the base list minus the events of all descendants of the position and minus its own
    leave.  Replacement does not change the list (the replacement is entered-as / left-as that position).
    """
    if action == "replace":
        return list(base)
    out = []
    for ev, p in base:
        if is_strict_prefix(path, p):
            continue
        if p == path and ev == "leave":
            continue
        out.append((ev, p))
    return out


def get_at(root, path):
    node = root
    for s, i in path:
        node = getattr(node, s)
        if i is not None:
            node = node[i]
    return node


def dict_without(d, path):
    """deep copy of a to_dict() result with the list member at `path` removed"""
    import copy

    d = copy.deepcopy(d)
    cur = d
    for s, i in path[:-1]:
        cur = cur[s]
        if i is not None:
            cur = cur[i]
    s, i = path[-1]
    assert i is not None
    del cur[s][i]
    return d


def selftest():
    class Name(object):
        __slots__ = ("loc", "value")

        def __init__(self, loc):
            self.loc = loc

        def to_dict(self):
            return {}

    class X(object):
        __slots__ = ("source", "loc", "name", "b", "a", "lst")

        def __init__(self, loc, a=None, b=None, lst=None):
            self.loc, self.a, self.b, self.lst, self.name = loc, a, b, lst or [], Name(loc)

        def to_dict(self):
            return {}

    l1, l2 = X((6, 7)), X((8, 9))
    root = X((0, 10), a=X((1, 2)), b=X((3, 5), a=X((4, 5))), lst=[l1, l2])
    ps = positions(root)
    assert [p.path for p in ps] == [(), (("a", None),), (("b", None),), (("b", None), ("a", None)), (("lst", 0),), (("lst", 1),)]
    ev = expected_events(root)
    assert len(ev) == 12 and ev[0] == ("enter", ()) and ev[-1] == ("leave", ())
    cut = events_after_edit(ev, (("b", None),), "skip")
    assert len(cut) == 12 - 3 and ("enter", (("b", None),)) in cut and ("leave", (("b", None),)) not in cut
    assert get_at(root, (("lst", 1),)) is l2
    assert dict_without({"lst": [1, 2], "x": {"l": [3]}}, (("x", None), ("l", 0))) == {"lst": [1, 2], "x": {"l": []}}
