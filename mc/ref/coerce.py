# -*- coding: utf-8 -*-
"""
Reference input coercion (GraphQL June 2018, sections 3.5.x "Input Coercion" of every input type,
3.9 Enums, 3.10 Input Objects, 3.11 List, 3.12 Non-Null, 6.1.2 CoerceVariableValues,
6.4.1 CoerceArgumentValues), transliterated over plain data.  Independent of py_gql.

Type expressions (JSON-able):   "Int" | ["list", T] | ["nn", T]
Type model (dict name -> def):
    {"kind": "scalar"}                                         built-in scalars Int Float String Boolean ID
    {"kind": "scalar", "parse": fn}                            custom scalar: fn(json) -> value, raises ValueError/TypeError
    {"kind": "enum", "values": [[name, internal], ...]}
    {"kind": "input", "fields": [{"name", "type", "has_default", "default", "python_name"}, ...]}
  defaults are *internal* (already coerced) values, the way code-built py_gql schemas hold them.

Literal trees (JSON-able):
    ["null"] ["int", "12"] ["float", "1.5"] ["str", "abc"] ["bool", true] ["enum", "A"]
    ["list", [tree, ...]] ["obj", [[name, tree], ...]] ["var", "name"]

Results: a Python value, or REJECT.  ``coerce_literal`` may also return ABSENT for a variable that
was not provided (the caller decides what an absent value means at that position).

``lenient`` is a policy: a collection of flags, each switching one place that the specification
leaves open (or where its text and its tables disagree) to the other admissible answer; a check
accepts an implementation answer that equals the reference under some policy (see POLICIES):

    "int_float"       a runtime integral float (1.0) is accepted for Int as the integer (JSON has one
                      number kind); default: rejected ("only integer input values are accepted")
    "id_int"          an integer given for ID stays an int; default: its decimal string
    "no_nested_wrap"  single-item wrapping is not applied to the *items of an explicit list* (June 2018
                      table in 3.11: [[Int]] <- [1, 2, 3] is an error); default: applied wherever a
                      non-list stands in a list position (the rule's text; [[1], [2], [3]]; later
                      editions of the table)
    "unset_var_rejects"  a variable without value used *inside* a list or object literal makes the
                      literal invalid; default: the object field counts as omitted / the list item
                      is null (3.10 table, graphql-js valueFromAST).  The property text only speaks
                      of absent *arguments*, and py_gql documents and tests "we fail hard on missing
                      variables", so both are admitted.
"""
import itertools


class _Sentinel(object):
    def __init__(self, name):
        self.name = name

    def __repr__(self):
        return self.name


REJECT = _Sentinel("REJECT")
ABSENT = _Sentinel("ABSENT")

MAX_INT = 2 ** 31 - 1
MIN_INT = -(2 ** 31)

BUILTIN = ("Int", "Float", "String", "Boolean", "ID")

FLAGS = ("int_float", "id_int", "no_nested_wrap", "unset_var_rejects")
POLICIES = tuple(
    frozenset(c) for n in range(len(FLAGS) + 1) for c in itertools.combinations(FLAGS, n)
)


def _pol(lenient):
    if lenient is True:
        return frozenset(("int_float", "id_int"))
    if not lenient:
        return frozenset()
    return frozenset(lenient)


# --------------------------------------------------------------------------------------------
# type helpers


def is_nn(t):
    return isinstance(t, list) and t[0] == "nn"


def is_list(t):
    return isinstance(t, list) and t[0] == "list"


def nullable(t):
    return t[1] if is_nn(t) else t


def named(t):
    while isinstance(t, list):
        t = t[1]
    return t


def type_text(t):
    if is_nn(t):
        return type_text(t[1]) + "!"
    if is_list(t):
        return "[" + type_text(t[1]) + "]"
    return t


# --------------------------------------------------------------------------------------------
# scalars


def _is_int(v):
    return isinstance(v, int) and not isinstance(v, bool)


def _is_float(v):
    return isinstance(v, float)


def _scalar_from_json(name, v, model, lenient):
    """Input coercion of a non-null runtime (JSON) value for a scalar type."""
    if name == "Int":
        # "only integer input values are accepted. All other input values, including strings with
        #  numeric content, must raise a query error"; "-(2^31) and 2^31 - 1".
        if _is_int(v):
            return v if MIN_INT <= v <= MAX_INT else REJECT
        # JSON has one number kind: an integral float (1.0) may be seen as the integer 1.
        if "int_float" in lenient and _is_float(v) and v == v and v not in (float("inf"), float("-inf")) and v == int(v):
            return int(v) if MIN_INT <= int(v) <= MAX_INT else REJECT
        return REJECT
    if name == "Float":
        # "both integer and float input values are accepted. Integer input values are coerced to Float"
        if _is_int(v) or _is_float(v):
            return float(v)
        return REJECT
    if name == "String":
        return v if isinstance(v, str) else REJECT
    if name == "Boolean":
        return v if isinstance(v, bool) else REJECT
    if name == "ID":
        # "any string (such as "4") or integer (such as 4) input value should be coerced to ID as
        #  appropriate for the ID formats a given GraphQL server expects"
        if isinstance(v, str):
            return v
        if _is_int(v):
            return v if "id_int" in lenient else str(v)
        return REJECT
    d = model[name]
    try:
        return d["parse"](v)
    except (ValueError, TypeError):
        return REJECT


def _scalar_from_literal(name, tree, model, lenient):
    k = tree[0]
    if name == "Int":
        if k == "int":
            v = int(tree[1], 10)
            return v if MIN_INT <= v <= MAX_INT else REJECT
        return REJECT
    if name == "Float":
        if k in ("int", "float"):
            return float(tree[1])
        return REJECT
    if name == "String":
        return tree[1] if k == "str" else REJECT
    if name == "Boolean":
        return tree[1] if k == "bool" else REJECT
    if name == "ID":
        if k == "str":
            return tree[1]
        if k == "int":
            return int(tree[1], 10) if "id_int" in lenient else str(int(tree[1], 10))
        return REJECT
    d = model[name]
    lit = d.get("literal_kinds", ("str",))
    if k not in lit:
        return REJECT
    try:
        return d["parse"](_untyped(tree))
    except (ValueError, TypeError):
        return REJECT


def _untyped(tree):
    k = tree[0]
    if k == "int":
        return int(tree[1], 10)
    if k == "float":
        return float(tree[1])
    return tree[1]


# --------------------------------------------------------------------------------------------
# runtime (variable) values


def coerce_variable(t, v, model, lenient=False):
    """Input coercion of a runtime (JSON-decoded) value ``v`` for type ``t``."""
    lenient = _pol(lenient)
    if is_nn(t):
        if v is None:
            return REJECT
        return coerce_variable(t[1], v, model, lenient)
    if v is None:
        return None
    if is_list(t):
        item = t[1]
        if isinstance(v, list):
            out = []
            for x in v:
                if "no_nested_wrap" in lenient and is_list(nullable(item)) and x is not None and not isinstance(x, list):
                    return REJECT
                c = coerce_variable(item, x, model, lenient)
                if c is REJECT:
                    return REJECT
                out.append(c)
            return out
        # "If the value passed as an input to a list type is not a list and not the null value, then
        #  the result of input coercion is a list of size one, where the single item value is the
        #  result of input coercion for the list's item type on the provided value"
        c = coerce_variable(item, v, model, lenient)
        return REJECT if c is REJECT else [c]
    d = model[t]
    if d["kind"] == "scalar":
        return _scalar_from_json(t, v, model, lenient)
    if d["kind"] == "enum":
        if not isinstance(v, str):
            return REJECT
        for name, internal in d["values"]:
            if name == v:
                return internal
        return REJECT
    if d["kind"] == "input":
        if not isinstance(v, dict):
            return REJECT
        fields = d["fields"]
        names = [f["name"] for f in fields]
        for k in v:
            if k not in names:
                return REJECT
        out = {}
        for f in fields:
            if f["name"] not in v:
                if f["has_default"]:
                    out[f["python_name"]] = f["default"]
                elif is_nn(f["type"]):
                    return REJECT
                continue
            c = coerce_variable(f["type"], v[f["name"]], model, lenient)
            if c is REJECT:
                return REJECT
            out[f["python_name"]] = c
        return out
    raise ValueError("not an input type: %r" % (t,))


# --------------------------------------------------------------------------------------------
# literals


def coerce_literal(t, tree, variables, model, lenient=False):
    """
    Input coercion of a literal for type ``t``.  ``variables`` holds *coerced* variable values
    (names absent from it were not provided).  Returns value | REJECT | ABSENT (only for a
    variable reference that has no value).
    """
    lenient = _pol(lenient)
    k = tree[0]
    if k == "var":
        if tree[1] not in variables:
            return ABSENT
        v = variables[tree[1]]
        if v is None and is_nn(t):
            return REJECT
        return v
    if is_nn(t):
        if k == "null":
            return REJECT
        return coerce_literal(t[1], tree, variables, model, lenient)
    if k == "null":
        return None
    if is_list(t):
        item = t[1]
        if k == "list":
            out = []
            for x in tree[1]:
                if "no_nested_wrap" in lenient and is_list(nullable(item)) and x[0] not in ("null", "list", "var"):
                    return REJECT
                c = coerce_literal(item, x, variables, model, lenient)
                if c is ABSENT:
                    # a list item that is a variable without value is null (invalid if non-null)
                    c = REJECT if (is_nn(item) or "unset_var_rejects" in lenient) else None
                if c is REJECT:
                    return REJECT
                out.append(c)
            return out
        c = coerce_literal(item, tree, variables, model, lenient)
        if c is REJECT:
            return REJECT
        return [c]
    d = model[t]
    if d["kind"] == "scalar":
        if k in ("list", "obj"):
            return REJECT
        return _scalar_from_literal(t, tree, model, lenient)
    if d["kind"] == "enum":
        if k != "enum":
            return REJECT
        for name, internal in d["values"]:
            if name == tree[1]:
                return internal
        return REJECT
    if d["kind"] == "input":
        if k != "obj":
            return REJECT
        fields = d["fields"]
        names = [f["name"] for f in fields]
        given = {}
        for name, sub in tree[1]:
            if name not in names or name in given:
                return REJECT
            given[name] = sub
        out = {}
        for f in fields:
            c = ABSENT
            if f["name"] in given:
                c = coerce_literal(f["type"], given[f["name"]], variables, model, lenient)
                if c is ABSENT and "unset_var_rejects" in lenient:
                    return REJECT
            if c is REJECT:
                return REJECT
            if c is ABSENT:
                if f["has_default"]:
                    out[f["python_name"]] = f["default"]
                elif is_nn(f["type"]):
                    return REJECT
                continue
            out[f["python_name"]] = c
        return out
    raise ValueError("not an input type: %r" % (t,))


# --------------------------------------------------------------------------------------------
# 6.1.2 CoerceVariableValues / 6.4.1 CoerceArgumentValues


def coerce_variable_values(vardefs, payload, model, lenient=False):
    """
    vardefs: [[name, type, default_tree | None], ...]; payload: the request's variables (dict).
    Returns dict of coerced variables | REJECT.
    """
    lenient = _pol(lenient)
    out = {}
    for name, t, default in vardefs:
        has = name in payload
        if not has and default is not None:
            c = coerce_literal(t, default, {}, model, lenient)
            if c is REJECT or c is ABSENT:
                return REJECT
            out[name] = c
            continue
        if is_nn(t) and (not has or payload[name] is None):
            return REJECT
        if has:
            v = payload[name]
            if v is None:
                out[name] = None
            else:
                c = coerce_variable(t, v, model, lenient)
                if c is REJECT:
                    return REJECT
                out[name] = c
    return out


def coerce_argument_values(argdefs, given, variables, model, lenient=False):
    """
    argdefs: [{"name", "type", "has_default", "default", "python_name"}, ...]
    given:   {arg name: literal tree} (the arguments written on the field / directive)
    variables: coerced variable values.
    Returns kwargs dict | REJECT.
    """
    lenient = _pol(lenient)
    out = {}
    for a in argdefs:
        t = a["type"]
        c = ABSENT
        if a["name"] in given:
            c = coerce_literal(t, given[a["name"]], variables, model, lenient)
        if c is REJECT:
            return REJECT
        if c is ABSENT:
            if a["has_default"]:
                out[a["python_name"]] = a["default"]
            elif is_nn(t):
                return REJECT
            continue
        out[a["python_name"]] = c
    for name in given:
        if name not in [a["name"] for a in argdefs]:
            return REJECT
    return out


# --------------------------------------------------------------------------------------------
# independent conformance predicate on what a resolver received


def conforms(v, t, model):
    """Does the Python value ``v`` conform to input type ``t``?  (Independent of the coercers.)"""
    if is_nn(t):
        return v is not None and conforms(v, t[1], model)
    if v is None:
        return True
    if is_list(t):
        return isinstance(v, list) and all(conforms(x, t[1], model) for x in v)
    d = model[t]
    if d["kind"] == "scalar":
        if t == "Int":
            return _is_int(v) and MIN_INT <= v <= MAX_INT
        if t == "Float":
            return _is_float(v) or _is_int(v)
        if t == "String":
            return isinstance(v, str)
        if t == "Boolean":
            return isinstance(v, bool)
        if t == "ID":
            return isinstance(v, str) or _is_int(v)
        return d["conforms"](v)
    if d["kind"] == "enum":
        return any(type(v) is type(internal) and v == internal for _, internal in d["values"])
    if d["kind"] == "input":
        if not isinstance(v, dict):
            return False
        by_py = {f["python_name"]: f for f in d["fields"]}
        for k in v:
            if k not in by_py:
                return False
        for f in d["fields"]:
            if f["python_name"] not in v:
                if f["has_default"] or is_nn(f["type"]):
                    return False
                continue
            if not conforms(v[f["python_name"]], f["type"], model):
                return False
        return True
    return False


def conforms_kwargs(kwargs, argdefs, model):
    by_py = {a["python_name"]: a for a in argdefs}
    for k in kwargs:
        if k not in by_py:
            return False
    for a in argdefs:
        if a["python_name"] not in kwargs:
            if a["has_default"] or is_nn(a["type"]):
                return False
            continue
        if not conforms(kwargs[a["python_name"]], a["type"], model):
            return False
    return True


def same(a, b):
    """Deep equality that does not conflate bool / int / float / str (1 == 1.0 == True in Python)."""
    if a is REJECT or b is REJECT or a is ABSENT or b is ABSENT:
        return a is b
    if isinstance(a, dict) and isinstance(b, dict):
        return set(a) == set(b) and all(same(a[k], b[k]) for k in a)
    if isinstance(a, (list, tuple)) and isinstance(b, (list, tuple)):
        return len(a) == len(b) and all(same(x, y) for x, y in zip(a, b))
    if type(a) is not type(b):
        return False
    if isinstance(a, float) and a != a:
        return b != b
    return a == b


# --------------------------------------------------------------------------------------------
# self-test: the tables of the specification


def selftest():
    m = {
        "Int": {"kind": "scalar"},
        "Float": {"kind": "scalar"},
        "String": {"kind": "scalar"},
        "Boolean": {"kind": "scalar"},
        "ID": {"kind": "scalar"},
        "E": {"kind": "enum", "values": [["A", 10], ["B", "bee"]]},
        # 3.10: input ExampleInputObject { a: String  b: Int! }
        "Ex": {
            "kind": "input",
            "fields": [
                {"name": "a", "type": "String", "has_default": False, "default": None, "python_name": "a"},
                {"name": "b", "type": ["nn", "Int"], "has_default": False, "default": None, "python_name": "b"},
            ],
        },
        "D": {
            "kind": "input",
            "fields": [
                {"name": "k", "type": "Int", "has_default": True, "default": 3, "python_name": "py_k"},
                {"name": "r", "type": ["nn", "Int"], "has_default": False, "default": None, "python_name": "r"},
            ],
        },
    }
    LI = ["list", "Int"]
    LLI = ["list", LI]
    # 3.11 list table (runtime values)
    tbl = [
        (LI, [1, 2, 3], [1, 2, 3]),
        (LI, [1, "b", True], REJECT),
        (LI, 1, [1]),
        (LI, None, None),
        (LLI, [[1], [2, 3]], [[1], [2, 3]]),
        (LLI, [1, 2, 3], [[1], [2], [3]]),
        (LLI, 1, [[1]]),
        (LLI, None, None),
    ]
    for t, v, exp in tbl:
        got = coerce_variable(t, v, m)
        assert same(got, exp), ("list table", t, v, got, exp)
    assert coerce_variable(LLI, [1, 2, 3], m, ["no_nested_wrap"]) is REJECT  # the June 2018 table's answer
    assert same(coerce_variable(LLI, 1, m, ["no_nested_wrap"]), [[1]])
    assert coerce_literal(LLI, ["list", [["int", "1"]]], {}, m, ["no_nested_wrap"]) is REJECT
    # the same table as literals
    I = lambda n: ["int", str(n)]  # noqa
    ltbl = [
        (LI, ["list", [I(1), I(2), I(3)]], [1, 2, 3]),
        (LI, ["list", [I(1), ["str", "b"], ["bool", True]]], REJECT),
        (LI, I(1), [1]),
        (LI, ["null"], None),
        (LLI, ["list", [["list", [I(1)]], ["list", [I(2), I(3)]]]], [[1], [2, 3]]),
        (LLI, ["list", [I(1), I(2), I(3)]], [[1], [2], [3]]),
        (LLI, I(1), [[1]]),
    ]
    for t, tree, exp in ltbl:
        got = coerce_literal(t, tree, {}, m)
        assert same(got, exp), ("list literal table", t, tree, got, exp)
    # 3.10 input object table: literal, variables, expected
    S = lambda s: ["str", s]  # noqa
    otbl = [
        (["obj", [["a", S("abc")], ["b", I(123)]]], {}, {"a": "abc", "b": 123}),
        (["obj", [["a", ["null"]], ["b", I(123)]]], {}, {"a": None, "b": 123}),
        (["obj", [["b", I(123)]]], {}, {"b": 123}),
        (["obj", [["a", ["var", "var"]], ["b", I(123)]]], {"var": None}, {"a": None, "b": 123}),
        (["obj", [["a", ["var", "var"]], ["b", I(123)]]], {}, {"b": 123}),
        (["obj", [["b", ["var", "var"]]]], {"var": 123}, {"b": 123}),
        (["var", "var"], {"var": {"b": 123}}, {"b": 123}),
        (S("abc123"), {}, REJECT),
        (["var", "var"], {"var": "abc123"}, "abc123"),  # variables are trusted (coerced before)
        (["obj", [["a", S("abc")], ["b", S("123")]]], {}, REJECT),
        (["obj", [["a", S("abc")]]], {}, REJECT),
        (["obj", [["b", ["var", "var"]]]], {}, REJECT),
        (["obj", [["b", ["var", "var"]]]], {"var": None}, REJECT),
        (["obj", [["a", S("abc")], ["b", ["null"]]]], {}, REJECT),
        (["obj", [["b", I(123)], ["c", S("xyz")]]], {}, REJECT),
    ]
    for tree, vs, exp in otbl:
        got = coerce_literal("Ex", tree, vs, m)
        assert same(got, exp), ("object table", tree, vs, got, exp)
    assert same(coerce_variable("Ex", {"b": 123, "c": "xyz"}, m), REJECT)
    assert same(coerce_variable("Ex", {"a": "abc"}, m), REJECT)
    assert same(coerce_variable("Ex", {"a": None, "b": 1}, m), {"a": None, "b": 1})
    assert coerce_literal("Ex", ["obj", [["a", ["var", "var"]], ["b", I(123)]]], {}, m, ["unset_var_rejects"]) is REJECT
    assert same(coerce_literal(LI, ["list", [["var", "x"], I(1)]], {}, m), [None, 1])
    assert coerce_literal(LI, ["list", [["var", "x"], I(1)]], {}, m, ["unset_var_rejects"]) is REJECT
    assert coerce_literal(["list", ["nn", "Int"]], ["list", [["var", "x"]]], {}, m) is REJECT
    # defaults and python names
    assert same(coerce_variable("D", {"r": 1}, m), {"py_k": 3, "r": 1})
    assert same(coerce_literal("D", ["obj", [["r", I(1)]]], {}, m), {"py_k": 3, "r": 1})
    assert same(coerce_variable("D", {"r": 1, "k": None}, m), {"py_k": None, "r": 1})
    # Int range, kinds
    assert coerce_variable("Int", MAX_INT, m) == MAX_INT and coerce_variable("Int", MIN_INT, m) == MIN_INT
    assert coerce_variable("Int", MAX_INT + 1, m) is REJECT and coerce_variable("Int", MIN_INT - 1, m) is REJECT
    assert coerce_literal("Int", I(MAX_INT), {}, m) == MAX_INT and coerce_literal("Int", I(MIN_INT), {}, m) == MIN_INT
    assert coerce_literal("Int", I(MAX_INT + 1), {}, m) is REJECT
    for bad in (True, "1", 1.5, [], {}):
        assert coerce_variable(["nn", "Int"], bad, m) is REJECT, bad
    assert coerce_variable("Int", 1.0, m) is REJECT and coerce_variable("Int", 1.0, m, lenient=True) == 1
    assert coerce_literal("Int", ["float", "1.0"], {}, m) is REJECT
    assert same(coerce_variable("Float", 1, m), 1.0) and coerce_variable("Float", "1", m) is REJECT
    assert same(coerce_literal("Float", I(1), {}, m), 1.0)
    assert coerce_variable("Boolean", "false", m) is REJECT and coerce_variable("Boolean", 0, m) is REJECT
    assert coerce_variable("String", 1, m) is REJECT and coerce_variable("String", {"a": 1}, m) is REJECT
    assert same(coerce_variable("ID", 4, m), "4") and same(coerce_variable("ID", 4, m, lenient=True), 4)
    assert coerce_variable("ID", 1.5, m) is REJECT and coerce_variable("ID", True, m) is REJECT
    assert same(coerce_literal("ID", I(4), {}, m), "4") and coerce_literal("ID", ["float", "4.0"], {}, m) is REJECT
    # enums
    assert coerce_variable("E", "A", m) == 10 and coerce_variable("E", "C", m) is REJECT
    assert coerce_variable("E", 10, m) is REJECT and coerce_variable("E", "bee", m) is REJECT
    assert coerce_literal("E", ["enum", "B"], {}, m) == "bee" and coerce_literal("E", S("B"), {}, m) is REJECT
    assert coerce_literal("String", ["enum", "B"], {}, m) is REJECT
    # non-null
    assert coerce_variable(["nn", "Int"], None, m) is REJECT and coerce_literal(["nn", "Int"], ["null"], {}, m) is REJECT
    assert coerce_variable(["list", ["nn", "Int"]], [1, None], m) is REJECT
    assert same(coerce_variable(["list", "Int"], [1, None], m), [1, None])
    # variables
    assert coerce_variable_values([["v", "Int", None]], {}, m) == {}
    assert coerce_variable_values([["v", "Int", I(1)]], {}, m) == {"v": 1}
    assert coerce_variable_values([["v", "Int", I(1)]], {"v": None}, m) == {"v": None}
    assert coerce_variable_values([["v", ["nn", "Int"], None]], {}, m) is REJECT
    assert coerce_variable_values([["v", ["nn", "Int"], None]], {"v": None}, m) is REJECT
    assert coerce_variable_values([["v", ["nn", "Int"], I(1)]], {"v": None}, m) is REJECT
    assert coerce_variable_values([["v", ["nn", "Int"], I(1)]], {}, m) == {"v": 1}
    # arguments
    ad = [
        {"name": "p", "type": "Int", "has_default": False, "default": None, "python_name": "py_p"},
        {"name": "q", "type": "Int", "has_default": True, "default": 7, "python_name": "q"},
        {"name": "r", "type": ["nn", "Int"], "has_default": False, "default": None, "python_name": "r"},
    ]
    assert coerce_argument_values(ad, {"r": I(1)}, {}, m) == {"q": 7, "r": 1}
    assert coerce_argument_values(ad, {"r": I(1), "q": ["null"], "p": ["var", "x"]}, {}, m) == {"q": None, "r": 1}
    assert coerce_argument_values(ad, {"r": ["var", "x"]}, {}, m) is REJECT
    assert coerce_argument_values(ad, {"r": ["var", "x"], "q": ["var", "y"]}, {"x": 2}, m) == {"q": 7, "r": 2}
    assert coerce_argument_values(ad, {}, {}, m) is REJECT
    # conformance predicate
    assert conforms({"py_k": 3, "r": 1}, "D", m) and not conforms({"r": 1}, "D", m) and not conforms({"k": 3, "r": 1}, "D", m)
    assert not conforms(True, "Int", m) and not conforms(MAX_INT + 1, "Int", m) and conforms(MIN_INT, "Int", m)
    assert not conforms("A", "E", m) and conforms(10, "E", m) and not conforms(10.0, "E", m)
    assert not conforms(1, ["list", "Int"], m) and conforms([1, None], ["list", "Int"], m)
    assert not conforms([1, None], ["list", ["nn", "Int"]], m) and not conforms(None, ["nn", "Int"], m)
    assert not same(1, True) and not same(1, 1.0) and same([1, {"a": 2.0}], [1, {"a": 2.0}]) and not same("1", 1)
