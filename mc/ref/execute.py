# -*- coding: utf-8 -*-
"""
Reference executor: the specification's ExecuteSelectionSet / CollectFields / CompleteValue
(June 2018, section 6) transliterated over the plain document model of mc.gen.docs and the schema
model of mc.gen.ex_schemas -- no py_gql code is used.

Null semantics are those the property text of C04 states for py_gql (NOT the spec's bubbling):

    "A resolver that raises the library's resolver error, or a null in a non-nullable position,
     yields null at exactly that position plus one error carrying that response path and field
     location, without disturbing sibling fields."

so a null at a non-null position stays where it is and is reported once; nothing propagates.

Result: ``Result`` with
    data        ordered dict tree (json.dumps preserves the order) or None
    errors      list of (path tuple, first_loc, all_locs tuple): the error must sit at `path`; the
                location of the first merged field node, and those of all merged nodes
    ambiguous   list of reasons: two fields merged under one response key that differ in name or in
                arguments; leaf with sub-selection; composite without; mixed
    trace       list of (pathkey, options) consulted in the world, in evaluation order
    unsupported reason string when the reference cannot decide (introspection fields, unknown things)
"""
import json
from collections import OrderedDict

from mc.gen import ex_schemas as S
from mc.gen import worlds as W


class Unsupported(Exception):
    pass


class Reject(Exception):
    """input coercion failure (request error for variables, field error for arguments)"""


class Result(object):
    def __init__(self):
        self.data = None
        self.errors = []
        self.ambiguous = []
        self.trace = []
        self.unsupported = None
        self.request_error = None
        self.invocations = 0
        self.variables = {}
        self.fields = {}  # response path -> (parent type, field name, type text, first node)

    def dumps(self):
        return json.dumps(self.data)


# ---------------------------------------------------------------------------------------------
# a small value-literal parser for the texts used in the document model


def parse_value(text):
    """value text -> ('int', s) | ('float', s) | ('string', s) | ('bool', b) | ('null',) |
    ('enum', s) | ('var', name) | ('list', [..]) | ('object', [(k, v)..])"""
    v, i = _pv(text, _ws(text, 0))
    i = _ws(text, i)
    if i != len(text):
        raise ValueError("trailing input in value %r" % text)
    return v


def _ws(t, i):
    while i < len(t) and t[i] in " ,\t\n":
        i += 1
    return i


def _pv(t, i):
    c = t[i]
    if c == "$":
        j = i + 1
        while j < len(t) and (t[j].isalnum() or t[j] == "_"):
            j += 1
        return ("var", t[i + 1 : j]), j
    if c == "[":
        i = _ws(t, i + 1)
        items = []
        while t[i] != "]":
            v, i = _pv(t, i)
            items.append(v)
            i = _ws(t, i)
        return ("list", items), i + 1
    if c == "{":
        i = _ws(t, i + 1)
        fields = []
        while t[i] != "}":
            j = i
            while t[j].isalnum() or t[j] == "_":
                j += 1
            name = t[i:j]
            i = _ws(t, j)
            assert t[i] == ":", t
            i = _ws(t, i + 1)
            v, i = _pv(t, i)
            fields.append((name, v))
            i = _ws(t, i)
        return ("object", fields), i + 1
    if c == '"':
        j = i + 1
        out = []
        while t[j] != '"':
            if t[j] == "\\":
                out.append({"n": "\n", "t": "\t", '"': '"', "\\": "\\"}.get(t[j + 1], t[j + 1]))
                j += 2
            else:
                out.append(t[j])
                j += 1
        return ("string", "".join(out)), j + 1
    if c == "-" or c.isdigit():
        j = i + 1
        while j < len(t) and (t[j].isdigit() or t[j] in ".eE+-"):
            j += 1
        s = t[i:j]
        return (("float", s) if any(ch in s for ch in ".eE") else ("int", s)), j
    j = i
    while j < len(t) and (t[j].isalnum() or t[j] == "_"):
        j += 1
    word = t[i:j]
    if not word:
        raise ValueError("bad value %r at %d" % (t, i))
    if word == "true":
        return ("bool", True), j
    if word == "false":
        return ("bool", False), j
    if word == "null":
        return ("null",), j
    return ("enum", word), j


def render_value(v):
    """inverse of parse_value (canonical spacing)"""
    k = v[0]
    if k == "var":
        return "$" + v[1]
    if k == "list":
        return "[" + ", ".join(render_value(x) for x in v[1]) + "]"
    if k == "object":
        return "{" + ", ".join("%s: %s" % (n, render_value(x)) for n, x in v[1]) + "}"
    if k == "string":
        return json.dumps(v[1])
    if k == "bool":
        return "true" if v[1] else "false"
    if k == "null":
        return "null"
    return v[1]


def object_paths(v, path=()):
    """paths of all object literals with >= 2 fields inside a parsed value"""
    out = []
    if v[0] == "object":
        if len(v[1]) >= 2:
            out.append(path)
        for i, (_n, x) in enumerate(v[1]):
            out.extend(object_paths(x, path + (i,)))
    elif v[0] == "list":
        for i, x in enumerate(v[1]):
            out.extend(object_paths(x, path + (i,)))
    return out


def permute_object(v, path, perm):
    """copy of parsed value `v` with the fields of the object at `path` reordered by `perm`"""
    if not path:
        return ("object", [v[1][k] for k in perm])
    i = path[0]
    if v[0] == "object":
        fields = list(v[1])
        fields[i] = (fields[i][0], permute_object(fields[i][1], path[1:], perm))
        return ("object", fields)
    items = list(v[1])
    items[i] = permute_object(items[i], path[1:], perm)
    return ("list", items)


def canon_value(v):
    """order-insensitive (for object fields) canonical form used to compare argument values."""
    if v[0] == "list":
        return ("list", tuple(canon_value(x) for x in v[1]))
    if v[0] == "object":
        return ("object", tuple(sorted((k, canon_value(x)) for k, x in v[1])))
    return tuple(v)


def arg_kinds(args, variables):
    """mechanical description of the argument values of a field node, e.g. 'int,object{var-omitted}'"""

    def kind(v):
        if v[0] == "var":
            return "var" if v[1] in variables else "var-omitted"
        if v[0] == "list":
            inner = sorted({kind(x) for x in v[1]})
            return "list[%s]" % "|".join(inner)
        if v[0] == "object":
            inner = sorted({kind(x) for _k, x in v[1]})
            return "object{%s}" % "|".join(inner)
        return v[0]

    kinds = {kind(parse_value(t)) for t in (args or {}).values()}
    if not kinds:
        return "none"

    # the single most structured kind present (fixed priority) keeps class keys independent of
    # unrelated arguments on the same field
    def prio(k):
        return (
            ("{" in k and "var-omitted" in k) * 32 + ("[" in k and "var-omitted" in k) * 16 + (k == "var-omitted") * 8
            + k.startswith("object") * 4 + k.startswith("list") * 2 + (k == "var") * 1,
            k,
        )

    return max(kinds, key=prio)


def describe(res, path):
    """class-key fragment for the field that owns response path `path` in reference result `res`:
    '<declared type>/args=<argument value kinds>[/merged]'"""
    p = tuple(path or ())
    while p and p not in res.fields:
        p = p[:-1]
    if p not in res.fields:
        return "root"
    _parent, _fname, ttext, node, n = res.fields[p]
    return "%s/args=%s%s" % (ttext, arg_kinds(node[4], res.variables), "/merged" if n > 1 else "")


def canon_args(args):
    return tuple(sorted((k.strip(), canon_value(parse_value(t))) for k, t in (args or {}).items()))


# ---------------------------------------------------------------------------------------------
# input coercion (spec 3.x "Input Coercion", 6.1.2 CoerceVariableValues, 6.4.1 CoerceArgumentValues)
# restricted to the types of the fixed schemas


def _coerce_scalar_json(sm, name, v):
    if name == "Int":
        if isinstance(v, bool) or not isinstance(v, int) or not (-(2 ** 31) <= v < 2 ** 31):
            raise Reject("Int")
        return v
    if name == "Float":
        if isinstance(v, bool) or not isinstance(v, (int, float)):
            raise Reject("Float")
        return float(v)
    if name == "String":
        if not isinstance(v, str):
            raise Reject("String")
        return v
    if name == "Boolean":
        if not isinstance(v, bool):
            raise Reject("Boolean")
        return v
    if name == "ID":
        if isinstance(v, bool) or not isinstance(v, (str, int)):
            raise Reject("ID")
        return str(v)
    if S.kind_of(sm, name) == "scalar":
        if sm["types"][name].get("impl") == "sdl":
            raise Unsupported("scalar with the library's default coercion")
        try:
            return S.date_parse(v)
        except Exception:
            raise Reject(name)
    raise Unsupported("scalar " + name)


def coerce_json(sm, t, v):
    """variable value (JSON) -> internal value"""
    if t[0] == "nn":
        if v is None:
            raise Reject("null for non-null")
        return coerce_json(sm, t[1], v)
    if v is None:
        return None
    if t[0] == "list":
        if isinstance(v, list):
            return [coerce_json(sm, t[1], x) for x in v]
        return [coerce_json(sm, t[1], v)]
    name = t[1]
    k = S.kind_of(sm, name)
    if k == "enum":
        if not isinstance(v, str) or v not in sm["types"][name]["values"]:
            raise Reject("enum")
        return sm["types"][name]["values"][v]
    if k == "input":
        if not isinstance(v, dict):
            raise Reject("input object")
        fields = sm["types"][name]["fields"]
        for key in v:
            if key not in fields:
                raise Reject("unknown input field")
        out = {}
        for fn, f in fields.items():
            ft = S.parse_type(f["type"])
            if fn in v:
                out[fn] = coerce_json(sm, ft, v[fn])
            elif f["default"] is not None:
                out[fn] = coerce_literal(sm, ft, parse_value(f["default"]), {})
            elif ft[0] == "nn":
                raise Reject("missing required input field")
        return out
    if k == "scalar":
        return _coerce_scalar_json(sm, name, v)
    raise Unsupported("input type " + str(name))


def coerce_literal(sm, t, v, variables):
    """literal (parsed value) -> internal value; variables are the coerced variable values"""
    if v[0] == "var":
        if v[1] not in variables:
            raise KeyError(v[1])  # handled by callers (position-dependent)
        val = variables[v[1]]
        if t[0] == "nn" and val is None:
            raise Reject("null variable for non-null")
        return val
    if t[0] == "nn":
        if v[0] == "null":
            raise Reject("null literal for non-null")
        return coerce_literal(sm, t[1], v, variables)
    if v[0] == "null":
        return None
    if t[0] == "list":
        if v[0] == "list":
            out = []
            for x in v[1]:
                try:
                    out.append(coerce_literal(sm, t[1], x, variables))
                except KeyError:
                    out.append(None)
            return out
        return [coerce_literal(sm, t[1], v, variables)]
    name = t[1]
    k = S.kind_of(sm, name)
    if k == "enum":
        if v[0] != "enum" or v[1] not in sm["types"][name]["values"]:
            raise Reject("enum literal")
        return sm["types"][name]["values"][v[1]]
    if k == "input":
        if v[0] != "object":
            raise Reject("input object literal")
        fields = sm["types"][name]["fields"]
        given = dict(v[1])
        for key in given:
            if key not in fields:
                raise Reject("unknown input field")
        out = {}
        for fn, f in fields.items():
            ft = S.parse_type(f["type"])
            if fn in given:
                try:
                    out[fn] = coerce_literal(sm, ft, given[fn], variables)
                except KeyError:
                    # unprovided variable: the field is treated as absent
                    if f["default"] is not None:
                        out[fn] = coerce_literal(sm, ft, parse_value(f["default"]), {})
                    elif ft[0] == "nn":
                        raise Reject("missing required input field")
            elif f["default"] is not None:
                out[fn] = coerce_literal(sm, ft, parse_value(f["default"]), {})
            elif ft[0] == "nn":
                raise Reject("missing required input field")
        return out
    if name == "Int":
        if v[0] != "int" or not (-(2 ** 31) <= int(v[1]) < 2 ** 31):
            raise Reject("Int literal")
        return int(v[1])
    if name == "Float":
        if v[0] not in ("int", "float"):
            raise Reject("Float literal")
        return float(v[1])
    if name == "String":
        if v[0] != "string":
            raise Reject("String literal")
        return v[1]
    if name == "Boolean":
        if v[0] != "bool":
            raise Reject("Boolean literal")
        return v[1]
    if name == "ID":
        if v[0] not in ("string", "int"):
            raise Reject("ID literal")
        return str(v[1])
    if k == "scalar":
        if sm["types"][name].get("impl") == "sdl":
            raise Unsupported("scalar with the library's default literal coercion")
        if v[0] != "string":
            raise Reject("custom scalar literal")
        return _coerce_scalar_json(sm, name, v[1])
    raise Unsupported("input type " + str(name))


def coerce_variables(sm, op, raw):
    """CoerceVariableValues -> dict, or raises Reject (request error)"""
    out = {}
    for name, ttext, default in op.get("vars", []):
        # directives on variable definitions are carried inside the texts by mc.gen.mutations
        ttext = ttext.split(" @")[0]
        if " = " in ttext:
            ttext, default = ttext.split(" = ", 1)
        if default is not None:
            default = default.split(" @")[0]
        t = S.parse_type(ttext)
        if S.kind_of(sm, S.named_of(t)) is None:
            raise Unsupported("variable of unknown type")
        if not S.is_input(sm, S.named_of(t)):
            raise Reject("variable of non-input type")
        if name not in raw:
            if default is not None:
                out[name] = coerce_literal(sm, t, parse_value(default), {})
            elif t[0] == "nn":
                raise Reject("missing required variable")
            continue
        v = raw[name]
        if v is None and t[0] == "nn":
            raise Reject("null for non-null variable")
        out[name] = coerce_json(sm, t, v)
    return out


def coerce_arguments(sm, argdefs, given, variables):
    """CoerceArgumentValues -> dict (python names == names); raises Reject (field error)"""
    out = {}
    given = {k.strip(): v for k, v in (given or {}).items()}
    for an, a in argdefs.items():
        t = S.parse_type(a["type"])
        default = a["default"]
        if an not in given:
            if default is not None:
                out[an] = coerce_literal(sm, t, parse_value(default), {})
            elif t[0] == "nn":
                raise Reject("missing required argument")
            continue
        v = parse_value(given[an])
        if v[0] == "var":
            if v[1] in variables:
                out[an] = variables[v[1]]
            elif default is not None:
                out[an] = coerce_literal(sm, t, parse_value(default), {})
            elif t[0] == "nn":
                raise Reject("missing variable for required argument")
            continue
        out[an] = coerce_literal(sm, t, v, variables)
    return out


# ---------------------------------------------------------------------------------------------
# execution


class Executor(object):
    def __init__(self, sm, doc, locs=None, world=None, valuekey="response", data_depth=None):
        self.sm = sm
        self.doc = doc
        self.locs = locs or {}
        self.world = world or {}
        self.frags = {}
        for fr in doc.get("frags", []):
            self.frags.setdefault(fr[0], fr)
        self.valuekey = valuekey  # "response": world resolver; "field": default_resolver over data_tree
        self.data_depth = data_depth
        self.res = Result()
        self.variables = {}

    # -- request level
    def get_operation(self, opname):
        ops = self.doc["ops"]
        if not opname:
            if len(ops) == 1:
                return ops[0]
            raise Reject("operation name required")
        for op in ops:
            if op.get("name") == opname:
                return op
        raise Reject("no such operation")

    def run(self, opname=None, raw_variables=None):
        res = self.res
        try:
            op = self.get_operation(opname)
            kind = op.get("kind", "query")
            root = self.sm.get(kind)
            if root is None:
                raise Reject("schema does not support " + kind)
            self.variables = coerce_variables(self.sm, op, raw_variables or {})
            res.variables = self.variables
        except Reject as e:
            res.request_error = str(e)
            return res
        except Unsupported as e:
            res.unsupported = str(e)
            return res
        try:
            res.data = self.exec_selection_set(root, [op["sels"]], (), (), 0, is_root_query=(kind == "query"))
        except Unsupported as e:
            res.unsupported = str(e)
        return res

    # -- CollectFields
    def _dir_if(self, args):
        v = parse_value(args["if"])
        if v[0] == "bool":
            return v[1]
        if v[0] == "var":
            if v[1] not in self.variables or self.variables[v[1]] is None:
                raise Unsupported("directive condition variable without a value")
            return bool(self.variables[v[1]])
        raise Unsupported("directive condition %r" % (v,))

    def _skipped(self, dirs):
        for name, args in dirs or ():
            if name == "skip" and "if" in args and self._dir_if(args):
                return True
        for name, args in dirs or ():
            if name == "include" and "if" in args and not self._dir_if(args):
                return True
        return False

    def _applies(self, objtype, tc):
        if tc is None or tc == objtype:
            return True
        t = self.sm["types"].get(tc)
        if t is None:
            raise Unsupported("unknown type condition")
        if t["kind"] in ("interface", "union"):
            return objtype in S.possible_types(self.sm, tc)
        return False

    def collect_fields(self, objtype, selections, visited, grouped=None):
        if grouped is None:
            grouped = OrderedDict()
        for s in selections:
            k = s[0]
            if k == "f":
                if self._skipped(s[3]):
                    continue
                grouped.setdefault(s[2] or s[1], []).append(s)
            elif k == "s":
                if self._skipped(s[2]):
                    continue
                if s[1] in visited:
                    continue
                visited.add(s[1])
                fr = self.frags.get(s[1])
                if fr is None:
                    continue
                if not self._applies(objtype, fr[1]):
                    continue
                self.collect_fields(objtype, fr[3], visited, grouped)
            elif k == "i":
                if self._skipped(s[2]):
                    continue
                if not self._applies(objtype, s[1]):
                    continue
                self.collect_fields(objtype, s[3], visited, grouped)
        return grouped

    # -- ExecuteSelectionSet
    def exec_selection_set(self, objtype, selection_lists, path, fpath, depth, is_root_query=False):
        visited = set()
        grouped = OrderedDict()
        for sels in selection_lists:
            self.collect_fields(objtype, sels, visited, grouped)
        out = OrderedDict()
        for key, nodes in grouped.items():
            first = nodes[0]
            fname = first[1]
            self._check_group(key, nodes, path)
            if fname == "__typename":
                out[key] = objtype
                continue
            if fname in ("__schema", "__type") and is_root_query:
                raise Unsupported("introspection")
            fdef = S.fields_of(self.sm, objtype).get(fname)
            if fdef is None:
                # spec: "if fieldType is defined" -- otherwise the entry is skipped
                continue
            out[key] = self.exec_field(objtype, fdef, nodes, path + (key,), fpath + (fname,), depth)
        return out

    def _check_group(self, key, nodes, path):
        if len(nodes) < 2:
            return
        first = nodes[0]
        for other in nodes[1:]:
            if other[1] != first[1]:
                self.res.ambiguous.append("different-fields")
            elif canon_args(other[4]) != canon_args(first[4]):
                self.res.ambiguous.append("different-arguments")

    def _loc(self, node):
        return self.locs.get(id(node))

    def _error(self, path, nodes):
        self.res.errors.append((tuple(path), self._loc(nodes[0]), tuple(self._loc(n) for n in nodes)))

    def exec_field(self, objtype, fdef, nodes, path, fpath, depth):
        sm = self.sm
        first = nodes[0]
        ftype = S.parse_type(fdef["type"])
        named = S.named_of(ftype)
        has_sel = [n[5] is not None for n in nodes]
        if S.is_composite(sm, named) and not all(has_sel):
            self.res.ambiguous.append("composite-without-selection" if not any(has_sel) else "mixed-selection")
            if not any(has_sel):
                raise Unsupported("composite field without a selection set")
        if S.is_leaf(sm, named) and any(has_sel):
            self.res.ambiguous.append("leaf-with-selection")
        self.res.fields[tuple(path)] = (objtype, first[1], fdef["type"], first, len(nodes))
        try:
            args = coerce_arguments(sm, fdef["args"], first[4], self.variables)
        except Reject:
            self._error(path, nodes[:1])
            return None
        pathkey = "/".join(str(p) for p in path)
        self.res.invocations += 1
        if self.valuekey == "field":
            return self._field_mode(fdef, ftype, nodes, path, fpath, depth)
        options = W.field_options(sm, ftype)
        outcome = self.world.get(pathkey, options[0])
        if outcome == "errS":
            outcome = "err"  # a ResolverError instance shared by several fields: same expectations
        self.res.trace.append((pathkey, options))
        if outcome not in options:
            raise Unsupported("outcome %r not possible for %s" % (outcome, fdef["type"]))
        if outcome == "err":
            self._error(path, nodes[:1])
            return None
        if outcome == "null":
            value = None
        elif fdef.get("echo"):
            value = ("echo", W.echo_value(args))
        else:
            value = ("shape", W.ITEMS[outcome])
        return self.complete(ftype, nodes, path, pathkey, value)

    # -- CompleteValue, library null semantics: no propagation
    def complete(self, t, nodes, path, pathkey, value):
        if t[0] == "nn":
            r = self.complete(t[1], nodes, path, pathkey, value)
            if r is None:
                self._error(path, nodes)
            return r
        if value is None:
            return None
        if value[0] == "echo":
            return value[1]
        if t[0] == "list":
            items = value[1] if value[0] == "shape" and value[1] is not None else ["v"]
            out = []
            for i, it in enumerate(items):
                out.append(
                    self.complete(t[1], nodes, path + (i,), "%s/%d" % (pathkey, i), None if it is None else ("shape", None))
                )
            return out
        name = t[1]
        sm = self.sm
        if S.is_leaf(sm, name):
            return W.json_value(sm, name, pathkey)
        # composite
        poss = S.possible_types(sm, name)
        if S.kind_of(sm, name) == "object":
            concrete = name
        else:
            concrete = self.world.get(pathkey + "#", poss[0])
            self.res.trace.append((pathkey + "#", poss))
            if concrete not in poss:
                raise Unsupported("concrete type %r not possible for %s" % (concrete, name))
        return self.exec_selection_set(concrete, [n[5] for n in nodes if n[5] is not None], path, (), 0)

    # -- default_resolver over worlds.data_tree: values keyed by FIELD path, bounded depth
    def _field_mode(self, fdef, ftype, nodes, path, fpath, depth):
        if fdef.get("echo") or fdef["args"]:
            value = None
        else:
            value = "tree"
        return self._complete_tree(ftype, nodes, path, "/".join(str(x) for x in fpath), value, depth, fpath)

    def _complete_tree(self, t, nodes, path, fkey, value, depth, fpath):
        if t[0] == "nn":
            r = self._complete_tree(t[1], nodes, path, fkey, value, depth, fpath)
            if r is None:
                self._error(path, nodes)
            return r
        if value is None:
            return None
        if t[0] == "list":
            return [self._complete_tree(t[1], nodes, path + (0,), fkey + "/0", value, depth, fpath + (0,))]
        name = t[1]
        sm = self.sm
        if S.is_leaf(sm, name):
            return W.json_value(sm, name, fkey)
        if depth >= self.data_depth:
            return None
        concrete = S.possible_types(sm, name)[0]
        return self._exec_tree(concrete, [n[5] for n in nodes if n[5] is not None], path, fpath, depth + 1)

    def _exec_tree(self, objtype, selection_lists, path, fpath, depth):
        visited = set()
        grouped = OrderedDict()
        for sels in selection_lists:
            self.collect_fields(objtype, sels, visited, grouped)
        out = OrderedDict()
        for key, nodes in grouped.items():
            fname = nodes[0][1]
            self._check_group(key, nodes, path)
            if fname == "__typename":
                out[key] = objtype
                continue
            fdef = S.fields_of(self.sm, objtype).get(fname)
            if fdef is None:
                continue
            out[key] = self.exec_field(objtype, fdef, nodes, path + (key,), tuple(fpath) + (fname,), depth)
        return out


def execute(sm, doc, locs=None, world=None, opname=None, variables=None, valuekey="response", data_depth=None):
    ex = Executor(sm, doc, locs, world, valuekey, data_depth)
    if valuekey == "field":
        # root selection set goes through the tree variant so that depth is tracked
        res = ex.res
        try:
            op = ex.get_operation(opname)
            kind = op.get("kind", "query")
            root = sm.get(kind)
            if root is None:
                raise Reject("no root")
            ex.variables = coerce_variables(sm, op, variables or {})
            res.variables = ex.variables
        except Reject as e:
            res.request_error = str(e)
            return res
        try:
            res.data = ex._exec_tree(root, [op["sels"]], (), (), 0)
        except Unsupported as e:
            res.unsupported = str(e)
        return res
    return ex.run(opname, variables)


# ---------------------------------------------------------------------------------------------
# world enumeration (the E1 idiom over the reference's own trace)


def enumerate_worlds(sm, doc, locs, opname, variables, max_faults, max_worlds=None, alt_filter=None):
    """Every world reachable by <= max_faults departures from the default outcome, each exactly once.
    Yields (world dict, reference Result)."""
    stack = [({}, -1)]
    n = 0
    while stack:
        world, last = stack.pop()
        res = execute(sm, doc, locs, world, opname, variables)
        n += 1
        yield world, res
        if max_worlds is not None and n >= max_worlds:
            return
        if res.unsupported or res.request_error:
            continue
        if len(world) >= max_faults:
            continue
        children = []
        for j in range(last + 1, len(res.trace)):
            key, options = res.trace[j]
            if key in world:
                continue
            for alt in options[1:]:
                if alt_filter is not None and not alt_filter(key, alt):
                    continue
                w2 = dict(world)
                w2[key] = alt
                children.append((w2, j))
        stack.extend(reversed(children))


# ---------------------------------------------------------------------------------------------
# self-test: the spec's examples of CollectFields / merging / directives, by hand


def selftest():
    from mc.gen import operations as O

    sm = S.SCHEMA_A
    # response keys in document order, aliases, merging of sub-selections
    doc = O.mkdoc(O.mkop([O.F("o", [O.F("i")]), O.F("x", None, alias=None) if False else O.F("i", alias="x"), O.F("o", [O.F("s")])]))
    r = execute(sm, doc)
    assert list(r.data) == ["o", "x"], r.data
    assert list(r.data["o"]) == ["i", "s"], r.data
    assert r.data["x"] == W.json_value(sm, "Int", "x")
    assert not r.errors and not r.ambiguous
    # non-null violation: null in place, one error, siblings untouched
    r2 = execute(sm, doc, world={"o/i": "err"})
    assert r2.data["o"]["i"] is None and r2.data["o"]["s"] == r.data["o"]["s"]
    assert [e[0] for e in r2.errors] == [("o", "i")]
    doc3 = O.mkdoc(O.mkop([O.F("n"), O.F("li"), O.F("p", [O.F("n")])]))
    r3 = execute(sm, doc3, world={"n": "null", "li": "[v,null]", "p/n": "null"})
    assert r3.data["n"] is None and r3.data["li"][1] is None and r3.data["p"] == {"n": None}
    assert sorted(e[0] for e in r3.errors) == [("li", 1), ("n",), ("p", "n")], r3.errors
    # fragments, type conditions, directives
    smb = S.SCHEMA_B
    doc4 = O.mkdoc(
        O.mkop([O.F("pet", [O.SP("Fr"), O.I("Cat", [O.F("lives")]), O.I("Dog", [O.F("barks")], dirs=[["skip", {"if": "$v"}]]), O.F("__typename")])],
               vars_=[["v", "Boolean!", None]]),
        [["Fr", "Pet", [], [O.F("name")]]],
    )
    r4 = execute(smb, doc4, variables={"v": False})
    assert list(r4.data["pet"]) == ["name", "barks", "__typename"] and r4.data["pet"]["__typename"] == "Dog"
    r5 = execute(smb, doc4, variables={"v": True}, world={"pet#": "Cat"})
    assert list(r5.data["pet"]) == ["name", "lives", "__typename"], r5.data
    # ambiguity
    doc6 = O.mkdoc(O.mkop([O.F("i"), O.F("n", alias="i")]))
    assert execute(sm, doc6).ambiguous == ["different-fields"]
    smc = S.SCHEMA_C
    doc7 = O.mkdoc(O.mkop([O.F("echo", args={"i": "1"}), O.F("echo", args={"i": "2"})]))
    assert execute(smc, doc7).ambiguous == ["different-arguments"]
    doc8 = O.mkdoc(O.mkop([O.F("echo", args={"e": "GREEN", "l": "3", "o": "{a: $v}"})], vars_=[["v", "Int", None]]))
    r8 = execute(smc, doc8, variables={})
    assert json.loads(r8.data["echo"]) == {"e": 2, "l": [3], "o": {}, "r": 3, "s": "d"}, r8.data
    # world enumeration: 2 leaves -> 3*3 worlds
    doc9 = O.mkdoc(O.mkop([O.F("i"), O.F("n")]))
    assert len(list(enumerate_worlds(sm, doc9, {}, None, {}, 9))) == 9
    # a spread visited once per selection set (spec: visitedFragments)
    doc10 = O.mkdoc(O.mkop([O.I(None, [O.SP("Fr")]), O.SP("Fr")]), [["Fr", "Query", [], [O.F("i")]]])
    r10 = execute(sm, doc10)
    assert list(r10.data) == ["i"]
