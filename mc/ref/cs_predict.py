# -*- coding: utf-8 -*-
"""
cs_predict -- model-level semantics of the C14 operations (own code over the cs_model data).

    predict(pm, op, src_kind) -> (predicted result model, predicted source model after the op)

The predicted result is "the source with exactly the targeted edit": everything else -- resolvers,
default / type / subscription resolvers, python names, defaults, descriptions, deprecations -- is
carried over unchanged.

Documented semantics used:
  * VisibilitySchemaTransform: hides named types, object / interface fields, input fields and
    directives; indirectly the fields, input fields and arguments whose type is now hidden; (from
    fix_type_references) hidden types also disappear from union member lists, interface lists and
    root operation slots.
  * CamelCaseSchemaTransform: renames fields, arguments (field and directive) and input fields to
    camel case; the python name keeps pointing at what it pointed at before (the old name when no
    explicit python name was set), so resolvers and input dictionaries see the same keys.
  * extend_schema: members are appended.
  * apply_schema_directives / fix_type_references work in place: the source itself becomes the result.
"""
import copy

from mc.ref import cs_model as M


def camel(name):
    lead = len(name) - len(name.lstrip("_"))
    trail = len(name) - len(name.rstrip("_"))
    core = name.strip("_")
    if not core:
        return name
    head, *tail = core.split("_")
    return name[:lead] + head + "".join(s[:1].upper() + s[1:] for s in tail) + (name[len(name) - trail :] if trail else "")


def heal(pm):
    """drop every reference to a type that is no longer defined (cascade of hiding a type)."""
    names = set(M.type_names(pm)) | set(M.SPECIFIED_SCALARS)
    for t in pm["types"]:
        if t["kind"] in ("object", "interface"):
            kept = []
            for f in t["fields"]:
                if M.named(f["type"]) not in names:
                    continue
                f["args"] = [a for a in f.get("args") or () if M.named(a["type"]) in names]
                kept.append(f)
            t["fields"] = kept
        if t["kind"] == "object":
            t["interfaces"] = [i for i in t.get("interfaces") or () if i in names]
        if t["kind"] == "union":
            t["members"] = [m for m in t.get("members") or () if m in names]
        if t["kind"] == "input":
            t["fields"] = [f for f in t["fields"] if M.named(f["type"]) in names]
    for d in pm["directives"]:
        d["args"] = [a for a in d.get("args") or () if M.named(a["type"]) in names]
    for op, r in list(pm["roots"].items()):
        if r is not None and r not in names:
            pm["roots"][op] = None
    return pm


def hide(pm, op):
    pm = copy.deepcopy(pm)
    types = set(op.get("types") or ())
    fields = set(tuple(x) for x in op.get("fields") or ())
    ifields = set(tuple(x) for x in op.get("input_fields") or ())
    dirs = set(op.get("directives") or ())
    pm["types"] = [t for t in pm["types"] if t["name"] not in types]
    for t in pm["types"]:
        if t["kind"] in ("object", "interface"):
            t["fields"] = [f for f in t["fields"] if (t["name"], f["name"]) not in fields]
        if t["kind"] == "input":
            t["fields"] = [f for f in t["fields"] if (t["name"], f["name"]) not in ifields]
    pm["directives"] = [d for d in pm["directives"] if d["name"] not in dirs]
    return heal(pm)


def camelcase(pm):
    pm = copy.deepcopy(pm)

    def ren(x):
        new = camel(x["name"])
        if new != x["name"]:
            x["pyname"] = x.get("pyname") or x["name"]
            x["name"] = new
        if x.get("pyname") == x["name"]:
            x["pyname"] = None

    for t in pm["types"]:
        if t["kind"] in ("object", "interface"):
            for f in t["fields"]:
                ren(f)
                for a in f.get("args") or ():
                    ren(a)
        if t["kind"] == "input":
            for f in t["fields"]:
                ren(f)
    for d in pm["directives"]:
        for a in d.get("args") or ():
            ren(a)
    return pm


def extend(pm, e):
    pm = copy.deepcopy(pm)
    k = e["ext"]
    if k == "add-field":
        M.get_type(pm, e["type"])["fields"].append(copy.deepcopy(e["field"]))
    elif k == "add-interface":
        t = M.get_type(pm, e["type"])
        t["interfaces"] = list(t.get("interfaces") or ()) + [e["interface"]]
        t["fields"] = t["fields"] + [M.F("id", "ID!"), M.F("peer_node", "Node", [M.A("first_n", "Int", 1)])]
    elif k == "add-union-member":
        M.get_type(pm, e["type"])["members"].append(e["member"])
    elif k == "add-enum-value":
        M.get_type(pm, e["type"])["values"].append(M.V(e["value"]))
    elif k == "add-input-field":
        M.get_type(pm, e["type"])["fields"].append(dict(e["field"]))
    elif k == "add-type":
        pm["types"].append(M.T("object", "Brand", fields=[M.F("b", "Int"), M.F("back", "Query")]))
    elif k == "add-interface-field":
        for tn in (e["type"], "Query", "Obj"):
            M.get_type(pm, tn)["fields"].append(dict(e["field"], args=[]))
    elif k == "members":
        for add in e["adds"]:
            t = M.get_type(pm, add[0])
            if len(add) == 3:
                if add[1] == "implements":
                    t["interfaces"] = list(t.get("interfaces") or ()) + [add[2]]
                    t["fields"] = t["fields"] + [M.F("id", "ID!"), M.F("peer_node", "Node", [M.A("first_n", "Int", 1)])]
                elif add[1] == "member":
                    t["members"].append(add[2])
                else:
                    t["values"].append(M.V(add[2]))
            else:
                t["fields"].append(copy.deepcopy(add[1]))
    else:
        raise ValueError(k)
    return pm


def apply_directives(pm):
    """@remove on fields / object types, @rename(to:) on fields -- driven by the 'applied' markers."""
    pm = copy.deepcopy(pm)
    removed_types = [t["name"] for t in pm["types"] if "@remove" in (t.get("applied") or ())]
    pm["types"] = [t for t in pm["types"] if t["name"] not in removed_types]
    for t in pm["types"]:
        if t["kind"] in ("object", "interface"):
            kept = []
            for f in t["fields"]:
                ap = f.get("applied") or ()
                if "@remove" in ap:
                    continue
                for a in ap:
                    if a.startswith("@rename(to: "):
                        new = a[len('@rename(to: "') : -2]
                        if new != f["name"]:
                            f["pyname"] = f.get("pyname") or f["name"]
                            f["name"] = new
                kept.append(f)
            t["fields"] = kept
    return heal(pm)


def predict(pm, op, src_kind):
    """-> (result model, source model afterwards)"""
    k = op["op"]
    if k == "clone":
        return copy.deepcopy(pm), pm
    if k == "camel":
        return camelcase(pm), pm
    if k == "hide":
        return hide(pm, op), pm
    if k == "hide+camel":
        return camelcase(hide(pm, op)), pm
    if k == "extend":
        return extend(pm, op), pm
    if k == "fix":
        return pm, pm
    if k == "directives":
        if src_kind.split(":")[0] != "sdl":
            return pm, pm  # no AST nodes: nothing is applied
        r = apply_directives(pm)
        return r, r
    raise ValueError(k)


def removed_elements(pm, result):
    """(kind, type name, member name|None) present in pm, absent from result (by name)."""
    out = []
    rt = {t["name"]: t for t in result["types"]}
    for t in pm["types"]:
        n = rt.get(t["name"])
        if n is None:
            out.append(("type", t["name"], None))
            continue
        for key, kind in (("fields", "field"),):
            have = {f["name"] for f in n.get(key) or ()}
            for f in t.get(key) or ():
                if f["name"] not in have:
                    out.append(("input-field" if t["kind"] == "input" else "field", t["name"], f["name"]))
    rd = {d["name"] for d in result["directives"]}
    for d in pm["directives"]:
        if d["name"] not in rd:
            out.append(("directive", d["name"], None))
    return out


def invalid_reasons(pm):
    """why a predicted model is not a valid schema (only what removals can break)."""
    out = []
    if not pm["roots"].get("query"):
        out.append("no query root")
    for t in pm["types"]:
        if t["kind"] in ("object", "interface", "input") and not t.get("fields"):
            out.append("%s has no fields" % t["name"])
        if t["kind"] == "union" and not t.get("members"):
            out.append("%s has no members" % t["name"])
        if t["kind"] == "enum" and not t.get("values"):
            out.append("%s has no values" % t["name"])
        if t["kind"] == "object":
            for i in t.get("interfaces") or ():
                it = M.get_type(pm, i)
                have = {f["name"]: f for f in t["fields"]}
                for f in (it or {}).get("fields") or ():
                    g = have.get(f["name"])
                    if g is None:
                        out.append("%s lacks %s.%s" % (t["name"], i, f["name"]))
                        continue
                    gargs = {a["name"] for a in g.get("args") or ()}
                    for a in f.get("args") or ():
                        if a["name"] not in gargs:
                            out.append("%s.%s lacks argument %s" % (t["name"], f["name"], a["name"]))
    return out


def selftest():
    assert camel("foo_bar_baz") == "fooBarBaz" and camel("_foo") == "_foo" and camel("foo") == "foo" and camel("__a_b__") == "__aB__"
    pm = M.norm(
        {
            "types": [
                M.T("object", "Query", fields=[M.F("a_b", "X", [M.A("c_d", "In")]), M.F("k", "Int")]),
                M.T("object", "X", fields=[M.F("x", "Int")]),
                M.T("input", "In", fields=[M.A("i_j", "Int")]),
                M.T("union", "U", members=["X", "Query"]),
            ],
            "directives": [],
            "roots": {"query": "Query"},
        }
    )
    h = hide(pm, {"types": ["X"]})
    assert [f["name"] for f in h["types"][0]["fields"]] == ["k"] and M.get_type(h, "U")["members"] == ["Query"]
    h = hide(pm, {"types": ["In"]})
    assert h["types"][0]["fields"][0]["args"] == []
    c = camelcase(pm)
    f = c["types"][0]["fields"][0]
    assert (f["name"], f["pyname"], f["args"][0]["name"], f["args"][0]["pyname"]) == ("aB", "a_b", "cD", "c_d")
    assert M.get_type(c, "In")["fields"][0]["name"] == "iJ"
    assert invalid_reasons(hide(pm, {"fields": [["X", "x"]]})) == ["X has no fields"]
