# -*- coding: utf-8 -*-
"""
Reference lexer for the June-2018 GraphQL lexical grammar (spec section 2.1, Appendix B.1-B.3).

Written against the specification text only; it never imports py_gql.  Every character class is an
explicit set of ASCII code points (no ``str.isdigit`` / ``str.isalnum`` / ``str.splitlines``).

    SourceCharacter :: U+0009 | U+000A | U+000D | U+0020 and above   (oracle decision (i): read over
                       code points, astral characters and -- for ``str`` input -- lone surrogates
                       included)
    Ignored         :: U+FEFF | U+0009 | U+0020 | U+000A | U+000D | Comment | ,
    Comment         :: # CommentChar*          CommentChar :: SourceCharacter but not LineTerminator
    Punctuator      :: ! $ ( ) ... : = @ [ ] { | } &
    Name            :: /[_A-Za-z][_0-9A-Za-z]*/
    IntValue        :: -?(0|[1-9][0-9]*)
    FloatValue      :: IntegerPart ( FractionalPart | ExponentPart | FractionalPart ExponentPart )
    StringValue     :: "" | " StringCharacter+ " | \"\"\" BlockStringCharacter* \"\"\"

Documented extensions (py_gql CHANGES 0.5.0, spec RFCs 599 / 601):

    * a number token may not be immediately followed by a Digit, ``.`` or NameStart;
    * ``""`` immediately followed by ``"`` is the opening of a block string, never an empty string.

``lex(text)`` returns ``(tokens, error)`` where ``tokens`` is the list of
``(kind, start, end, value)`` delivered before the first lexical error and ``error`` is ``None`` or
``(offset, reason)``.  ``kind`` is the punctuator itself or one of Name / Int / Float / String /
BlockString; ``value`` is the lexeme for Name / Int / Float and the decoded value for strings.
"""

PUNCTUATORS = frozenset("!$():=@[]{|}&")
NAME_START = frozenset("_ABCDEFGHIJKLMNOPQRSTUVWXYZabcdefghijklmnopqrstuvwxyz")
DIGITS = frozenset("0123456789")
NAME_CONTINUE = NAME_START | DIGITS
HEX = frozenset("0123456789ABCDEFabcdef")
WHITESPACE_IGNORED = frozenset("\ufeff\t \n\r,")
ESCAPED = {'"': '"', "\\": "\\", "/": "/", "b": "\b", "f": "\f", "n": "\n", "r": "\r", "t": "\t"}


def is_source_character(c):
    return c == "\t" or c == "\n" or c == "\r" or c >= " "


def block_string_value(raw):
    """BlockStringValue(rawValue) of spec section 2.9.4, transliterated."""
    # lines: split on LineTerminator = \r\n | \n | \r  (and nothing else)
    lines = []
    cur = []
    i = 0
    n = len(raw)
    while i < n:
        c = raw[i]
        if c == "\r":
            lines.append("".join(cur))
            cur = []
            if i + 1 < n and raw[i + 1] == "\n":
                i += 1
        elif c == "\n":
            lines.append("".join(cur))
            cur = []
        else:
            cur.append(c)
        i += 1
    lines.append("".join(cur))

    def indent_of(line):
        k = 0
        while k < len(line) and line[k] in " \t":
            k += 1
        return k

    common = None
    for line in lines[1:]:
        ind = indent_of(line)
        if ind < len(line) and (common is None or ind < common):
            common = ind
    if common:
        lines = [lines[0]] + [line[common:] for line in lines[1:]]
    while lines and indent_of(lines[0]) == len(lines[0]):
        lines.pop(0)
    while lines and indent_of(lines[-1]) == len(lines[-1]):
        lines.pop()
    return "\n".join(lines)


def lex(text):
    tokens = []
    n = len(text)
    i = 0
    while True:
        # ---- Ignored
        while i < n:
            c = text[i]
            if c in WHITESPACE_IGNORED:
                i += 1
            elif c == "#":
                i += 1
                while i < n and text[i] not in "\n\r" and is_source_character(text[i]):
                    i += 1
            else:
                break
        if i >= n:
            return tokens, None
        c = text[i]
        start = i
        if not is_source_character(c):
            return tokens, (i, "not a SourceCharacter")
        if c in PUNCTUATORS:
            tokens.append((c, i, i + 1, c))
            i += 1
            continue
        if c == ".":
            if text[i : i + 3] == "...":
                tokens.append(("...", i, i + 3, "..."))
                i += 3
                continue
            return tokens, (i, "lone '.'")
        if c in NAME_START:
            i += 1
            while i < n and text[i] in NAME_CONTINUE:
                i += 1
            tokens.append(("Name", start, i, text[start:i]))
            continue
        if c == "-" or c in DIGITS:
            if c == "-":
                i += 1
            if i >= n or text[i] not in DIGITS:
                return tokens, (i, "digit expected after '-'")
            if text[i] == "0":
                i += 1
            else:
                while i < n and text[i] in DIGITS:
                    i += 1
            kind = "Int"
            # FractionalPart: only if '.' Digit+ is there in full (longest match of a *valid* token)
            if i + 1 < n and text[i] == "." and text[i + 1] in DIGITS:
                i += 2
                while i < n and text[i] in DIGITS:
                    i += 1
                kind = "Float"
            # ExponentPart
            if i < n and text[i] in "eE":
                j = i + 1
                if j < n and text[j] in "+-":
                    j += 1
                if j < n and text[j] in DIGITS:
                    while j < n and text[j] in DIGITS:
                        j += 1
                    i = j
                    kind = "Float"
            # look-ahead restriction (RFC 601)
            if i < n and (text[i] in DIGITS or text[i] == "." or text[i] in NAME_START):
                return tokens, (i, "number followed by Digit, '.' or NameStart")
            tokens.append((kind, start, i, text[start:i]))
            continue
        if c == '"':
            if text[i : i + 3] == '"""':
                i += 3
                raw = []
                while True:
                    if i >= n:
                        return tokens, (i, "unterminated block string")
                    if text[i : i + 3] == '"""':
                        i += 3
                        break
                    if text[i : i + 4] == '\\"""':
                        raw.append('"""')
                        i += 4
                        continue
                    if not is_source_character(text[i]):
                        return tokens, (i, "not a SourceCharacter in block string")
                    raw.append(text[i])
                    i += 1
                tokens.append(("BlockString", start, i, block_string_value("".join(raw))))
                continue
            i += 1
            val = []
            while True:
                if i >= n:
                    return tokens, (i, "unterminated string")
                ch = text[i]
                if ch == '"':
                    i += 1
                    break
                if ch == "\n" or ch == "\r":
                    return tokens, (i, "line terminator in string")
                if not is_source_character(ch):
                    return tokens, (i, "not a SourceCharacter in string")
                if ch == "\\":
                    if i + 1 >= n:
                        return tokens, (i, "unterminated escape")
                    e = text[i + 1]
                    if e == "u":
                        hx = text[i + 2 : i + 6]
                        bad = [j for j, h in enumerate(hx) if h not in HEX]
                        if len(hx) == 4 and not bad:
                            val.append(chr(int(hx, 16)))
                            i += 6
                            continue
                        # offset of the first character that is not a hex digit (or end of input)
                        return tokens, (i + 2 + (bad[0] if bad else len(hx)), "bad \\u escape")
                    if e in ESCAPED:
                        val.append(ESCAPED[e])
                        i += 2
                        continue
                    return tokens, (i + 1, "bad escape")
                val.append(ch)
                i += 1
            tokens.append(("String", start, i, "".join(val)))
            continue
        return tokens, (i, "unexpected character")


def selftest():
    def kinds(t):
        toks, err = lex(t)
        return [k for k, _, _, _ in toks], (None if err is None else err[0])

    assert kinds("") == ([], None)
    assert kinds("\ufeff { a , b }#x\n") == (["{", "Name", "Name", "}"], None)
    assert kinds("...") == (["..."], None)
    assert kinds("..")[1] == 0
    assert kinds("0") == (["Int"], None)
    assert kinds("-0") == (["Int"], None)
    assert kinds("-") == ([], 1)
    assert kinds("00")[1] is not None
    assert kinds("01")[1] is not None
    assert kinds("1.")[1] is not None
    assert kinds("1.e1")[1] is not None
    assert kinds(".1")[1] is not None
    assert kinds("1.0") == (["Float"], None)
    assert kinds("1e05") == (["Float"], None)
    assert kinds("1e+0") == (["Float"], None)
    assert kinds("1.0e-10") == (["Float"], None)
    assert kinds("1e")[1] is not None
    assert kinds("1a")[1] is not None
    assert kinds("0xF1")[1] is not None
    assert kinds("1_")[1] is not None
    assert kinds("1.0.0")[1] is not None
    assert kinds("1 a") == (["Int", "Name"], None)
    assert kinds("1$") == (["Int", "$"], None)
    assert kinds('""') == (["String"], None)
    assert kinds('"" ""') == (["String", "String"], None)
    assert kinds('""""""') == (["BlockString"], None)
    assert kinds('"""""""')[1] is not None
    assert kinds('""""')[1] is not None
    assert kinds('"""a\\"""b"""') == (["BlockString"], None)
    assert lex('"""a\\"""b"""')[0][0][3] == 'a"""b'
    assert lex('"a\\n\\u0041\\/"')[0][0][3] == "a\nA/"
    assert kinds('"\\u00g0"')[1] is not None
    assert kinds('"\\x"')[1] is not None
    assert kinds('"a\nb"')[1] is not None
    assert kinds('"\x00"')[1] is not None
    assert kinds('"\t"') == (["String"], None)
    assert kinds('"\U0001F600 "') == (["String"], None)
    assert kinds("\x00")[1] == 0
    assert kinds("٣")[1] == 0
    assert kinds("a٣")[1] == 1
    assert kinds("#\x00")[1] == 1
    assert kinds("# \U0001F600   x\r{") == (["{"], None)
    assert kinds("&|") == (["&", "|"], None)
    assert kinds("?")[1] == 0
    # BlockStringValue, spec example
    raw = "\n    Hello,\n      World!\n\n    Yours,\n      GraphQL.\n  "
    assert block_string_value(raw) == "Hello,\n  World!\n\nYours,\n  GraphQL."
    assert block_string_value("a   b") == "a   b"
    assert block_string_value("  a\r\n  b\r  c") == "  a\nb\nc"
