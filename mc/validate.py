# run with python3-vt (has jsonschema)
import glob, json, sys, os
import jsonschema
V = os.path.dirname(os.path.dirname(os.path.abspath(__file__)))
ok = True
ms = json.load(open("/root/.vp/MANIFEST.schema.json"))
es = json.load(open("/root/.vp/EVIDENCE.schema.json"))
m = json.load(open(os.path.join(V, "MANIFEST.json")))
try:
    jsonschema.validate(m, ms)
    print("MANIFEST.json valid; checks:", len(m["checks"]), "not_applicable:", len(m.get("not_applicable", [])))
except Exception as e:
    ok = False
    print("MANIFEST invalid:", e)
props = [json.loads(l)["id"] for l in open(os.path.join(V, "properties.jsonl"))]
claimed = {c["property_id"] for c in m["checks"]} | {c["property_id"] for c in m.get("not_applicable", [])}
for p in props:
    if p not in claimed:
        ok = False
        print("property neither claimed nor not_applicable:", p)
for c in m["checks"]:
    p = os.path.join(V, c["evidence_file"]) if not c["evidence_file"].startswith("/") else c["evidence_file"]
    if not os.path.exists(p):
        print("evidence missing:", p); ok = False; continue
    try:
        ev = json.load(open(p))
        jsonschema.validate(ev, es)
        if ev["level"] != c["level_claimed"]["category"]:
            print("level mismatch", p); ok = False
        print("ok", os.path.basename(p), ev["tier"], ev["level"], "eval=%s nt=%s exh=%s viol=%s wall=%s" % (
            ev["coverage"].get("evaluations"), ev["coverage"].get("distinct_nontrivial"),
            ev["coverage"].get("exhaustive"), ev.get("violations"), ev.get("wall_s")))
    except Exception as e:
        ok = False
        print("evidence invalid:", p, str(e)[:300])
sys.exit(0 if ok else 1)
