# -*- coding: utf-8 -*-
"""Regenerate /verif/MANIFEST.json from the metadata of the check modules (python -m mc.manifest)."""
import importlib
import json
import os

V = os.path.dirname(os.path.dirname(os.path.abspath(__file__)))
BASELINE = "cd /repo && /venv/bin/python -m pytest -ra -q -p no:cacheprovider --timeout=900 --continue-on-collection-errors"

NOT_BUILT = "check not built yet in this session (planned in DESIGN.md section 6); nothing is claimed for it"


def main():
    props = [json.loads(l) for l in open(os.path.join(V, "properties.jsonl"))]
    checks, na = [], []
    for p in props:
        pid = p["id"]
        path = os.path.join(V, "mc", "checks", pid + ".py")
        if not os.path.exists(path):
            na.append({"property_id": pid, "reason": NOT_BUILT})
            continue
        claimed = open(os.path.join(V, "claimed.txt")).read().split()
        if pid not in claimed:
            na.append({"property_id": pid, "reason": NOT_BUILT})
            continue
        m = importlib.import_module("mc.checks." + pid)
        if not getattr(m, "READY", False):
            na.append({"property_id": pid, "reason": NOT_BUILT})
            continue
        if getattr(m, "NOT_APPLICABLE", None):
            na.append({"property_id": pid, "reason": m.NOT_APPLICABLE})
            continue
        checks.append(
            {
                "property_id": pid,
                "quick_cmd": "./check %s quick" % pid,
                "thorough_cmd": "./check %s thorough" % pid,
                "evidence_file": "evidence/%s.json" % pid,
                "replay_cmd_template": "./check replay {path}",
                "engine": getattr(m, "ENGINE", "mc"),
                "level_claimed": {
                    "category": m.LEVEL,
                    "text": m.LEVEL_TEXT,
                    "design_ref": getattr(m, "DESIGN_REF", "DESIGN.md section 6"),
                },
                "level_note": m.LEVEL_NOTE,
                "technique": m.TECHNIQUE,
            }
        )
    man = {
        "version": 1,
        "setup_cmd": "./check selftest",
        "hooks": {
            "guard": "PY_GQL_VERIF",
            "enable": "no source hooks are needed: checks import /repo/src directly (PYTHONPATH) and use existing seams (AsyncIORuntime(loop=), ThreadPoolRuntime._inner, sys.monitoring); PY_GQL_VERIF=1 is exported by ./check but nothing in /repo reads it",
            "baseline_off_cmd": BASELINE,
            "source_commits": [],
            "add_only": True,
        },
        "engines": [
            {
                "name": "mc",
                "path": "mc/",
                "serves_properties": [c["property_id"] for c in checks],
                "kind_free_text": "hand-written bounded-exhaustive explorers in Python: E1 choice-sequence (schedule / fault) explorer on a virtual asyncio loop, a controlled pool and a sys.monitoring baton scheduler; E2 breadth-first search over call histories; E3 exhaustive structural enumeration against reference models",
            }
        ],
        "checks": checks,
        "not_applicable": na,
        "notes": "Known findings: known_findings.json (open entries print KNOWN-FINDING lines; fixed entries are replayed as regression cases). All checks are deterministic and exhaustive inside the bounds recorded in each evidence file; VERIF_SEED does not influence verdicts.",
    }
    with open(os.path.join(V, "MANIFEST.json"), "w") as f:
        json.dump(man, f, indent=1)
        f.write("\n")
    print("MANIFEST.json: %d checks, %d not_applicable" % (len(checks), len(na)))


if __name__ == "__main__":
    main()
