# developer tool: run one stored seed against its check in a scratch worktree and record the outcome in its meta.json
# usage: record_seed.py <seed-id> [<check-id>]      (never touches /repo; needs mc/try_mutant.sh)
import json, os, re, subprocess, sys

V = os.path.dirname(os.path.dirname(os.path.abspath(__file__)))
sid = sys.argv[1]
p = os.path.join(V, "seeded", sid, "meta.json")
m = json.load(open(p))
v = m.setdefault("verif", {})
cid = sys.argv[2] if len(sys.argv) > 2 else (v.get("detected_by", "").split()[1] if v.get("detected_by") else m["property"])
env = dict(os.environ, TAIL="8")
out = subprocess.run([os.path.join(V, "mc", "try_mutant.sh"), os.path.join(V, "seeded", sid, "patch.diff"), cid, "quick"], capture_output=True, text=True, env=env).stdout
if "patch does not apply" in out:
    print(sid, "patch does not apply on the current tree")
    sys.exit(0)
classes = re.findall(r"VIOLATION property=%s replay=\S+ class=(\S+)" % cid, out)
if not classes:
    print(sid, "NOT CAUGHT", out[-300:])
    sys.exit(1)
v.setdefault("confirmed_by_me", "mc/confirm_seed.sh: demo passes at HEAD, fails with patch, 1895 repo tests pass with patch")
v["detected_by"] = "./check %s quick" % cid
v["violation_class"] = classes[0]
v.setdefault("history", "caught (re-run on the final tree)")
json.dump(m, open(p, "w"), indent=1)
print(sid, "caught", classes[0])
